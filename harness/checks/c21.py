"""C21 Mid-circuit measurement methods agree with the exact branch semantics (analytic mode; sampling: partial).

REPLAY: a seeded generator produces dynamic circuits (mid-circuit measurements with reset / postselection, operations
conditioned on boolean functions of earlier outcomes, terminal statistics incl. statistics of measurement values).
TapeEval.tla carries EVERY outcome branch (measurement = branching in the spec) and emits the exact branch-summed
expectation values, probabilities and branch weights; the driver runs the same program as a QNode on default.qubit with
mcm_method in {deferred, tree-traversal} and compares.  With shots: counts total the shots and a G-test of one-shot /
tree-traversal samples against TLC's exact distribution (statistical, partial)."""
import itertools
import math
import random

import numpy as np

import pennylane as qp

from .. import devsim, lib, tapeeval
from ..codec import decode_gate, rec
from ..lib import CheckResult, Violation

M = 4
# conditions: (name, arity, python predicate on bits, builder of the PennyLane measurement-value expression)
CONDS = [
    ("m", 1, lambda a: a == 1, lambda a: a),
    ("not m", 1, lambda a: a == 0, lambda a: ~a),
    ("m==0", 1, lambda a: a == 0, lambda a: a == 0),
    ("and", 2, lambda a, b: a == 1 and b == 1, lambda a, b: a & b),
    ("or", 2, lambda a, b: a == 1 or b == 1, lambda a, b: a | b),
    ("sum==1", 2, lambda a, b: a + b == 1, lambda a, b: a + b == 1),
    ("a>b", 2, lambda a, b: a > b, lambda a, b: a > b),
    ("2a+b==2", 2, lambda a, b: 2 * a + b == 2, lambda a, b: 2 * a + b == 2),
    # asymmetric arithmetic over three outcomes (may include postselected measurements)
    ("2a+b+c==3", 3, lambda a, b, c: 2 * a + b + c == 3, lambda a, b, c: 2 * a + b + c == 3),
    ("a+2b+4c>=5", 3, lambda a, b, c: a + 2 * b + 4 * c >= 5, lambda a, b, c: a + 2 * b + 4 * c >= 5),
    ("a*b+c==1", 3, lambda a, b, c: a * b + c == 1, lambda a, b, c: a * b + c == 1),
]


def gen_program(rng, tier):
    n = rng.choice([2, 2, 3, 3, 4])
    prog, nm = [], 0
    max_m = 4 if tier == "quick" else 5
    for _ in range(rng.randint(3, 9)):
        r = rng.random()
        if r < 0.38 and nm < max_m:
            w = rng.randint(1, n)
            post = 0
            if rng.random() < 0.2:
                post = rng.choice([1, 2])
            prog.append(("measure", w, int(rng.random() < 0.35), post))
            nm += 1
        elif r < 0.55 and nm >= 1:
            avail = [c for c in CONDS if c[1] <= nm]
            c = rng.choice([c for c in avail if c[1] == max(a[1] for a in avail)] if rng.random() < 0.5 else avail)
            args = rng.sample(range(nm), c[1])
            g = devsim.random_gate(rng, n, M, ["g1", "r1", "g2", "r2"])
            prog.append(("cond", CONDS.index(c), args, g))
        else:
            prog.append(("gate", devsim.random_gate(rng, n, M, ["g1", "r1", "g2", "r2", "g3", "mrz", "adj"])))
    if nm == 0:
        prog.insert(len(prog) // 2, ("measure", 1, 0, 0))
        nm = 1
    meas = []
    for _ in range(rng.randint(1, 2)):
        k = rng.choice(["expval", "probs", "mexp", "mprobs"])
        if k == "expval":
            pw = [rng.randint(0, 3) for _ in range(n)]
            if not any(pw):
                pw[0] = 3
            meas.append(("expval", pw))
        elif k == "probs":
            meas.append(("probs", rng.sample(range(1, n + 1), rng.randint(1, n))))
        elif k == "mexp":
            meas.append(("mexp", rng.randrange(nm)))
        else:
            meas.append(("mprobs", rng.sample(range(nm), rng.randint(1, min(nm, 2)))))
    return {"n": n, "prog": prog, "meas": meas, "nm": nm}


def gen_post_family(rng):
    """sampling clause: a postselected measurement that is NOT the last one, whose discarded branch has weight, followed by
    further measurements whose statistics (and correlations with the first) are requested."""
    n = rng.choice([2, 3])
    prog = [("gate", devsim.random_gate(rng, n, M, ["r1"])) for _ in range(2)]
    prog.append(("gate", {"g": "RY", "w": [1], "p": [rng.choice([3, 5, 11, 13])], "x": [], "m": [], "mods": []}))
    if rng.random() < 0.5:
        prog.insert(0, ("measure", rng.randint(1, n), 0, 0))
    k0 = sum(1 for s_ in prog if s_[0] == "measure")
    prog.append(("measure", 1, int(rng.random() < 0.3), rng.choice([1, 2])))
    prog.append(("gate", {"g": "CNOT", "w": [1, 2], "p": [], "x": [], "m": [], "mods": []}))
    prog.append(("gate", devsim.random_gate(rng, n, M, ["r1", "g1"])))
    prog.append(("measure", 2, 0, 0))
    if rng.random() < 0.5:
        prog.append(("cond", 0, [k0 + 1], devsim.random_gate(rng, n, M, ["g1", "r1"])))
        prog.append(("measure", rng.randint(1, n), 0, 0))
    nm = sum(1 for s_ in prog if s_[0] == "measure")
    later = list(range(k0 + 1, nm))
    meas = [("mprobs", [k0] + later[:1]), ("mprobs", later[:2] if len(later) >= 2 else later), ("probs", [2, 1])]
    return {"n": n, "prog": prog, "meas": meas, "nm": nm}


def gen_cond3_family(rng):
    """analytic clause: two plain and one postselected measurement (in every order) feeding an ASYMMETRIC three-outcome
    condition - exercises the reduction of postselected measurements inside measurement-value arithmetic."""
    n = 3
    prog = [("gate", {"g": "RY", "w": [w], "p": [rng.choice([3, 5, 11, 13])], "x": [], "m": [], "mods": []}) for w in (1, 2, 3)]
    prog.append(("gate", devsim.random_gate(rng, n, M, ["g2", "r2"])))
    order = [0, 0, rng.choice([1, 2])]
    rng.shuffle(order)
    for w, post in zip(rng.sample([1, 2, 3], 3), order):
        prog.append(("measure", w, int(rng.random() < 0.3), post))
        if rng.random() < 0.4:
            prog.append(("gate", devsim.random_gate(rng, n, M, ["r1", "g1"])))
    ci = rng.choice([8, 9, 10])
    args = rng.sample([0, 1, 2], 3)
    prog.append(("cond", ci, args, {"g": rng.choice(["RX", "RY"]), "w": [rng.randint(1, 3)], "p": [rng.choice([3, 5, 7])], "x": [], "m": [], "mods": []}))
    pw = [rng.randint(1, 3) for _ in range(n)]
    return {"n": n, "prog": prog, "meas": [("expval", pw), ("probs", [1, 2, 3])], "nm": 3}


def to_tlc(p):
    ops, k = [], 0
    for st in p["prog"]:
        if st[0] == "gate":
            ops.append(st[1])
        elif st[0] == "measure":
            ops.append({"g": "MEASURE", "w": [st[1]], "x": [st[2], st[3]]})
            k += 1
        else:
            _, ci, args, g = st
            pred = CONDS[ci][2]
            tt = [list(o) for o in itertools.product([0, 1], repeat=k) if pred(*[o[a] for a in args])]
            ops.append({"g": "COND", "tt": tt, "op": g})
    req = []
    for m in p["meas"]:
        if m[0] == "expval":
            req.append({"t": "expval", "pw": m[1]})
        elif m[0] == "probs":
            req.append({"t": "probs", "w": m[1]})
    return {"n": p["n"], "ops": ops, "meas": req or [{"t": "probs", "w": [1]}]}


def expected(p, res):
    W = sum(w for _, w in res["bw"])
    if W < 1e-12:
        return [], 0.0
    out, j = [], 0
    for m in p["meas"]:
        if m[0] in ("expval", "probs"):
            out.append(np.asarray(res["meas"][j]) / W)
            j += 1
        elif m[0] == "mexp":
            out.append(sum(w * o[m[1]] for o, w in res["bw"]) / W)
        else:
            v = np.zeros(1 << len(m[1]))
            for o, w in res["bw"]:
                v[int("".join(str(o[i]) for i in m[1]), 2)] += w
            out.append(v / W)
    return out, W


def make_qfunc(p):
    def f():
        mvs = []
        for st in p["prog"]:
            if st[0] == "gate":
                decode_gate(st[1], M)
            elif st[0] == "measure":
                mvs.append(qp.measure(st[1] - 1, reset=bool(st[2]), postselect={0: None, 1: 0, 2: 1}[st[3]]))
            else:
                _, ci, args, g = st
                expr = CONDS[ci][3](*[mvs[a] for a in args])
                qp.cond(expr, lambda g=g: decode_gate(g, M))()
        outs = []
        for m in p["meas"]:
            if m[0] == "expval":
                outs.append(qp.expval(devsim.word_op(m[1], list(range(p["n"])))))
            elif m[0] == "probs":
                outs.append(qp.probs(wires=[w - 1 for w in m[1]]))
            elif m[0] == "mexp":
                outs.append(qp.expval(mvs[m[1]]))
            else:
                outs.append(qp.probs(op=[mvs[i] for i in m[1]]))
        return tuple(outs)
    return f


def gtest(counts, probs, shots):
    """G statistic and degrees of freedom; impossible outcomes observed -> inf."""
    g, df = 0.0, -1
    for c, p in zip(counts, probs):
        if p < 1e-12:
            if c > 0:
                return float("inf"), 1
            continue
        df += 1
        if c > 0:
            g += 2 * c * math.log(c / (shots * p))
    return g, max(df, 1)


def chi2_sf(x, k):
    from scipy.stats import chi2
    return float(chi2.sf(x, k))


def run(tier, seed):
    rng = random.Random(2100 + seed)
    progs = [gen_program(rng, tier) for _ in range(190 if tier == "quick" else 3000)]
    progs += [gen_cond3_family(rng) for _ in range(30 if tier == "quick" else 300)]
    res, stats = tapeeval.evaluate("C21", [to_tlc(p) for p in progs], M)
    viol, n_cmp, n_exec, samples, nontriv = [], 0, 0, [], set()
    branch_hist = {}
    skipped_zero = 0
    for pi, (p, r) in enumerate(zip(progs, res)):
        branch_hist[len(r["bw"])] = branch_hist.get(len(r["bw"]), 0) + 1
        exp, W = expected(p, r)
        if W < 1e-9:
            skipped_zero += 1          # postselection on an impossible outcome: undefined, skip
            continue
        dev = qp.device("default.qubit", wires=p["n"] + p["nm"])
        # call-site discriminator for findings: does the request contain statistics of mid-circuit measurement VALUES?
        mvtag = ":with-mcm-value-statistics" if any(m[0] in ("mexp", "mprobs") for m in p["meas"]) else ""
        mvtag += ":with-postselection" if any(s_[0] == "measure" and s_[3] for s_ in p["prog"]) else ""
        for method in ("deferred", "tree-traversal"):
            try:
                out = qp.QNode(make_qfunc(p), dev, mcm_method=method)()
                n_exec += 1
            except Exception as e:
                viol.append(Violation(key=f"{method}:analytic{mvtag}:exception:{type(e).__name__}", detail=f"{type(e).__name__}: {e} on {p}",
                                      replay={"program": p, "method": method}))
                continue
            outs = out if isinstance(out, tuple) else (out,)
            for m, e, g in zip(p["meas"], exp, outs):
                n_cmp += 1
                if not devsim.close(np.asarray(g), np.asarray(e), tol=1e-8):
                    viol.append(Violation(key=f"{method}:analytic{mvtag}:{m[0]}:mismatch",
                                          detail=f"{method}: {m} got {np.asarray(g).round(6).tolist()} expected {np.asarray(e).round(6).tolist()} for {p['prog']}",
                                          replay={"program": p, "method": method}))
                elif any(s[0] == "cond" for s in p["prog"]):
                    nontriv.add(pi)
        if len(samples) < 3 and any(s[0] == "cond" for s in p["prog"]) and len(r["bw"]) >= 4:
            samples.append({"n": p["n"], "program": [str(s) for s in p["prog"]], "measurements": [str(m) for m in p["meas"]],
                            "branches": [[list(o), w] for o, w in r["bw"]]})
    # ---- finite shots (statistical clause): probs-type results only, fixed seed, G-test at 1e-9 with one retry
    n_stat, stat_fail = 0, 0
    shots = 4000
    fam = [gen_post_family(rng) for _ in range(10 if tier == "quick" else 120)]
    fres, fstats = tapeeval.evaluate("C21", [to_tlc(p) for p in fam], M, name="postfam")
    stats["distinct"] += fstats["distinct"]
    stats["generated"] += fstats["generated"]
    stat_progs = list(zip(progs[:35 if tier == "quick" else 400], res)) + list(zip(fam, fres))
    for pi, (p, r) in enumerate(stat_progs):
        exp, W = expected(p, r)
        has_post = any(s[0] == "measure" and s[3] for s in p["prog"])
        if W < 0.05:
            continue
        for method in ("one-shot", "tree-traversal"):
            for mi, m in enumerate(p["meas"]):
                if m[0] not in ("probs", "mprobs"):
                    continue

                def sample_once(sd, sh):
                    dev = qp.device("default.qubit", wires=p["n"] + p["nm"], seed=sd)
                    f = make_qfunc({**p, "meas": [m]})
                    prob = qp.set_shots(qp.QNode(f, dev, mcm_method=method), shots=sh)()
                    prob = prob[0] if isinstance(prob, tuple) else prob
                    # with postselection (hw-like) the probabilities are normalised over the valid shots: about sh*W of them
                    return np.asarray(prob) * (round(sh * W) if has_post else sh)
                try:
                    cnt = sample_once(1234 + seed + pi, shots)
                except Exception as e:
                    viol.append(Violation(key=f"exception:shots:{method}:{type(e).__name__}", detail=f"{type(e).__name__}: {e}", replay={"program": p}))
                    continue
                n_stat += 1
                if np.any(np.isnan(cnt)):
                    continue
                if not has_post and abs(cnt.sum() - shots) > 1e-6:
                    viol.append(Violation(key=f"shots:{method}:counts-do-not-total", detail=f"{cnt.sum()} != {shots}", replay={"program": p}))
                    continue
                g, df = gtest(cnt, exp[mi], cnt.sum())
                if chi2_sf(g, df) < 1e-9:
                    cnt2 = sample_once(99991 + seed + pi, 10 * shots)
                    g2, df2 = gtest(cnt2, exp[mi], cnt2.sum())
                    if chi2_sf(g2, df2) < 1e-9:
                        stat_fail += 1
                        viol.append(Violation(key=f"shots:{method}:{m[0]}:distribution",
                                              detail=f"{method} sample distribution {(cnt2 / cnt2.sum()).round(4).tolist()} vs exact {np.asarray(exp[mi]).round(4).tolist()} for {p['prog']}",
                                              replay={"program": p, "method": method}))
    if devsim.close(np.array([0.25]), np.array([0.25 + 1e-6])):
        raise lib.MachineryError("negative control accepted")
    cov = {"states": stats["distinct"], "transitions": stats["generated"], "traces_validated_against_impl": n_exec,
           "evaluations": n_cmp + n_stat, "distinct_nontrivial": len(nontriv),
           "rule": "seeded dynamic circuits (2-4 wires, up to 4-5 mid-circuit measurements, reset, postselection, 8 kinds of conditions); "
                   "non-trivial = distinct programs containing a conditional operation whose every compared value matched",
           "samples": samples, "branch_count_histogram": branch_hist, "analytic_comparisons": n_cmp, "statistical_tests": n_stat,
           "postselected_impossible_skipped": skipped_zero, "negative_controls_rejected": 1, "ring_level_M": M}
    return CheckResult(coverage=cov, violations=viol, assumptions=[
        "analytic clause: exact (1e-8 against TLC's branch-summed ring values); sampling clause: G-test at significance 1e-9 with one "
        "independent retry at 10x shots (false-alarm probability < 1e-17 per test); hw-like/fill-shots postselection counts not covered"])
