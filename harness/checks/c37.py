"""C37 Higher-order derivatives.  Oracle: exact psi, d_k psi, d_j d_k psi from TLC (harness/deriv.py, order 2); the Hessian of
expval / probs is their bilinear form.  REPLAY: param_shift_hessian and nested jacobian(jacobian) (parameter-shift with
max_diff=2, backprop) under autograd / jax / torch on circuits with 1-4 parameters incl. shared parameters."""
import random

import numpy as np

import pennylane as qp

from .. import deriv, devsim, lib
from ..lib import CheckResult, Violation
from ..codec import decode_gate, rec
from .c34 import M, gen_case
from .c34 import build_ops_fn as _build_ops_fn_c34


def tlc_ops(c):
    return [{k: v for k, v in g.items() if k not in ("aff", "rot")} for g in c["ops"]]


def gen_directed(rng, kind):
    """Directed families the random generator reaches too rarely:
    rot    - multi-parameter gates (qp.Rot, written RZ RY RZ for the exact oracle) whose angles are separate / shared arguments:
             Hessian entries BETWEEN two angles of one gate;
    crot   - a trainable controlled rotation (4-term shift rule, shifts 2pi apart) under an observable that sees the control
             qubit's relative phase, differentiated twice with max_diff=2 (execution cache in play);
    shared - arguments shared between gates and rescaled, with a probs measurement (classical Jacobian contracted on both sides
             of a vector-valued Hessian)."""
    ops, tr = [], []

    def train(name, wires, i, c=1, b=0, **extra):
        g = rec(name, wires, [0])
        g["p"] = [(c * x[i] + b) % 32]
        g["aff"] = (i, c, b)
        g.update(extra)
        tr.append(len(ops))
        ops.append(g)

    if kind == "rot":
        n = 2
        m = rng.choice([3, 4])
        x = [rng.randrange(1, 16) for _ in range(m)]
        ops.append(rec("RY", [1], [rng.choice([1, 3, 5, 7])])); ops.append(rec("RX", [2], [rng.choice([1, 3, 5, 7])]))
        ops.append(rec("CNOT", [2, 1]))
        w = rng.randint(1, 2)
        idx = rng.sample(range(m), 3) if rng.random() < 0.6 else [0, 1, 0]
        train("RZ", [w], idx[0], rot="head"); train("RY", [w], idx[1], rot="mid"); train("RZ", [w], idx[2], rot="tail")
        ops.append(rec("CNOT", [1, 2]))
        for i in range(m):
            if i not in idx:
                train(rng.choice(["RX", "RY"]), [rng.randint(1, 2)], i)
        meas = ("expval", [rng.randint(1, 3), rng.randint(1, 3)])
    elif kind == "crot":
        n = 2
        x = [rng.randrange(1, 16) for _ in range(2)]
        train("RY", [1], 0)
        ops.append(rec("RX", [2], [rng.randrange(1, 16)]))
        train(rng.choice(["CRX", "CRY", "CRZ"]), [1, 2], 1)
        ops.append(rec("RY", [1], [rng.randrange(1, 16)]))
        ops.append(rec("CNOT", [1, 2]))
        meas = ("expval", [rng.choice([1, 2]), rng.randint(1, 3)])
    else:
        n = 2
        x = [rng.randrange(1, 16) for _ in range(2)]
        ops.append(rec("Hadamard", [2]))
        train("RX", [1], 0); train("RY", [2], 0, c=2); train("RY", [1], 1, c=-1, b=3)
        ops.append(rec("CNOT", [1, 2]))
        train("RX", [2], 1)
        meas = ("probs", rng.choice([[1], [2], [1, 2]]))
    return {"n": n, "x": x, "ops": ops, "tr": tr, "meas": meas, "directed": kind}


def build_ops_fn(c):
    """as c34.build_ops_fn, with RZ RY RZ triples marked rot=head/mid/tail emitted as one qp.Rot"""
    if not any(g.get("rot") for g in c["ops"]):
        return _build_ops_fn_c34(c)
    base = _build_ops_fn_c34(dict(c, ops=[]))      # measurement part only

    def f(x):
        ang = []
        for g in c["ops"]:
            if g.get("rot"):
                i, cc, b = g["aff"]
                ang.append(cc * x[i] + lib.angle_of(b, M))
                if g["rot"] == "tail":
                    qp.Rot(*ang, wires=[w - 1 for w in g["w"]])
                    ang = []
            elif "aff" in g:
                i, cc, b = g["aff"]
                getattr(qp, g["g"])(cc * x[i] + lib.angle_of(b, M), wires=[w - 1 for w in g["w"]])
            else:
                decode_gate({k: v for k, v in g.items() if k != "aff"}, M)
        return base(x)
    return f


def exact_hessian(c, st):
    m = len(c["x"])
    first = deriv.hess(c["meas"], st, c["n"], c["tr"][0], c["tr"][0])
    H = np.zeros(np.shape(first) + (m, m))
    for j in c["tr"]:
        for k in c["tr"]:
            ij, cj, _ = c["ops"][j]["aff"]
            ik, ck, _ = c["ops"][k]["aff"]
            H[..., ij, ik] += cj * ck * np.asarray(deriv.hess(c["meas"], st, c["n"], j, k))
    return H


def pl_hessians(c, full=True):
    dev = qp.device("default.qubit", wires=c["n"])
    xs = np.array([lib.angle_of(a, M) for a in c["x"]], dtype=float)
    out = {}
    from pennylane import numpy as pnp
    f = build_ops_fn(c)
    for method in ("parameter-shift", "backprop"):
        qn = qp.QNode(f, dev, interface="autograd", diff_method=method, max_diff=2)
        try:
            out[f"autograd:{method}"] = np.asarray(qp.jacobian(qp.jacobian(qn))(pnp.array(xs, requires_grad=True)), dtype=float)
        except Exception as e:
            out[f"autograd:{method}"] = e
    import jax
    for method in (("parameter-shift", "backprop") if full else ("backprop",)):
        qn = qp.QNode(f, dev, interface="jax", diff_method=method, max_diff=2)
        try:
            out[f"jax:{method}"] = np.asarray(jax.hessian(qn)(jax.numpy.asarray(xs)), dtype=float)
        except Exception as e:
            out[f"jax:{method}"] = e
    import torch
    qn = qp.QNode(f, dev, interface="torch", diff_method="backprop", max_diff=2)
    try:
        out["torch:backprop"] = np.asarray(torch.autograd.functional.hessian(qn, torch.tensor(xs, dtype=torch.float64)), dtype=float) \
            if c["meas"][0] == "expval" else None
    except Exception as e:
        out["torch:backprop"] = e
    # the dedicated transform at QNode level (classical Jacobian of shared / rescaled arguments contracted on both sides)
    try:
        qn = qp.QNode(f, dev, interface="autograd", diff_method="parameter-shift", max_diff=2)
        out["param_shift_hessian[qnode]"] = ("qnode", np.asarray(qp.gradients.param_shift_hessian(qn)(pnp.array(xs, requires_grad=True)), dtype=float))
    except Exception as e:
        out["param_shift_hessian[qnode]"] = e
    # the dedicated transform on the tape
    try:
        tape = qp.workflow.construct_tape(qp.QNode(f, dev, interface="autograd"))(pnp.array(xs, requires_grad=True))
        tapes, fn = qp.gradients.param_shift_hessian(tape)
        out["param_shift_hessian"] = ("tape", np.asarray(fn(qp.execute(tapes, dev, diff_method=None)), dtype=float), tape)
    except Exception as e:
        out["param_shift_hessian"] = e
    return out


def run(tier, seed):
    rng = random.Random(3700 + seed)
    deriv.selfcheck("C37", M)
    cases = []
    while len(cases) < (12 if tier == "quick" else 300):
        c = gen_case(rng)
        if c["meas"][0] in ("expval", "probs") and len(c["tr"]) <= 4:
            cases.append(c)
    nd = 2 if tier == "quick" else 25
    cases += [gen_directed(rng, k) for k in ("rot", "crot", "shared") for _ in range(4 * nd)]      # candidates, filtered below
    sts, stats = deriv.states("C37", [{"n": c["n"], "ops": tlc_ops(c), "tr": c["tr"]} for c in cases], M, order=2)
    viol, n_cmp, rej, samples, nontriv = [], 0, {}, [], set()
    kept = {"rot": 0, "crot": 0, "shared": 0}
    for ci, (c, st) in enumerate(zip(cases, sts)):
        H = exact_hessian(c, st)
        if c.get("directed"):
            # keep a directed candidate only if the entries it is meant to exercise are non-zero (decided on the exact Hessian)
            Hm = H.reshape((-1,) + H.shape[-2:])
            off = np.max(np.abs(Hm - np.stack([np.diag(np.diag(h)) for h in Hm]))) if H.shape[-1] > 1 else 0.0
            if c["directed"] == "rot":
                rot = [k for k in c["tr"] if c["ops"][k].get("rot")]
                off = max(abs(float(np.max(np.abs(np.asarray(deriv.hess(c["meas"], st, c["n"], rot[a], rot[b]))))))
                          for a in range(3) for b in range(a + 1, 3))
            if off < 1e-3 or kept[c["directed"]] >= nd:
                continue
            kept[c["directed"]] += 1
        for tag, val in pl_hessians(c, full=(tier != "quick" or ci % 4 == 0 or bool(c.get("directed")))).items():
            if val is None:
                continue
            if isinstance(val, Exception):
                rej[f"{tag}:{type(val).__name__}"] = rej.get(f"{tag}:{type(val).__name__}", 0) + 1
                continue
            if isinstance(val, tuple) and val[0] == "qnode":
                Hp = np.asarray(val[1], dtype=float)
                exp = np.moveaxis(H, [-2, -1], [0, 1]) if H.ndim > 2 else H      # (arg, arg, *out)
                Hp, exp = np.squeeze(Hp), np.squeeze(exp)
                n_cmp += 1
                if Hp.shape != exp.shape or not np.allclose(Hp, exp, atol=1e-7):
                    viol.append(Violation(key="param_shift_hessian[qnode]:wrong-hessian", detail=f"got {np.round(Hp, 6).tolist()} expected {np.round(exp, 6).tolist()} for {tlc_ops(c)} x={c['x']} meas={c['meas']}",
                                          replay={"case": c}))
                continue
            if isinstance(val, tuple):
                # param_shift_hessian differentiates the TAPE parameters (one per trainable gate): compare in gate space
                _, Hp, tape = val
                tr = c["tr"]
                first = deriv.hess(c["meas"], st, c["n"], tr[0], tr[0])
                Hg = np.zeros(np.shape(first) + (len(tr), len(tr)))
                for a, j in enumerate(tr):
                    for b, k in enumerate(tr):
                        cj, ck = c["ops"][j]["aff"][1], c["ops"][k]["aff"][1]
                        Hg[..., a, b] = np.asarray(deriv.hess(c["meas"], st, c["n"], j, k))
                if len(tape.trainable_params) != len(tr):
                    continue
                Hp = np.asarray(Hp, dtype=float)
                # param_shift_hessian puts the two parameter axes FIRST for vector-valued measurements
                exp = np.moveaxis(Hg, [-2, -1], [0, 1]) if Hg.ndim > 2 else Hg
                Hp, exp = np.squeeze(Hp), np.squeeze(exp)       # a single parameter / scalar measurement drops its axes
                n_cmp += 1
                if Hp.shape != exp.shape or not np.allclose(Hp, exp, atol=1e-7):
                    viol.append(Violation(key="param_shift_hessian:wrong-hessian", detail=f"got {np.round(Hp, 6).tolist()} expected {np.round(exp, 6).tolist()} for {tlc_ops(c)} meas={c['meas']}",
                                          replay={"case": c}))
                continue
            n_cmp += 1
            Hp = np.asarray(val, dtype=float)
            if Hp.shape != H.shape or not np.allclose(Hp, H, atol=1e-7):
                viol.append(Violation(key=f"{tag}:wrong-hessian", detail=f"{tag}: got {np.round(Hp, 6).tolist()} expected {np.round(H, 6).tolist()} for {tlc_ops(c)} x={c['x']} meas={c['meas']}",
                                      replay={"case": c, "config": tag}))
            elif np.max(np.abs(H)) > 1e-6 and len(c["x"]) >= 2:
                nontriv.add(ci)
        if len(samples) < 2 and np.max(np.abs(H)) > 1e-3 and len(c["x"]) >= 2:
            samples.append({"x_lattice": c["x"], "ops": [(g["g"], g["w"], g["p"], g.get("aff")) for g in c["ops"]], "measurement": c["meas"],
                            "exact_hessian": np.round(H, 8).tolist()})
    if any(v == 0 for v in kept.values()):
        raise lib.MachineryError(f"vacuity: a directed family has no candidate with a non-zero target entry: {kept}")
    if np.allclose(np.array([0.3]), np.array([0.3 + 1e-5]), atol=1e-7):
        raise lib.MachineryError("negative control accepted")
    cov = {"states": stats["distinct"], "transitions": stats["generated"], "traces_validated_against_impl": n_cmp, "evaluations": n_cmp,
           "distinct_nontrivial": len(nontriv), "rule": "seeded circuits as in C34 with 1-4 trainable gates plus directed families (qp.Rot with separate / shared angles, trainable controlled rotations under a phase-sensitive observable, shared and rescaled arguments with probs); non-trivial = distinct circuits with >= 2 arguments "
           "and a non-zero exact Hessian on which every accepting configuration agreed", "samples": samples, "rejections": rej, "directed_cases_kept": kept,
           "negative_controls_rejected": 1}
    return CheckResult(coverage=cov, violations=viol, assumptions=["exact states psi, d psi, d^2 psi from TLC; bilinear forms in float64; 1e-7"])
