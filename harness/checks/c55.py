"""C55 Lie-algebra tools compute closed algebras and correct structure constants (partial: Pauli-word / Pauli-sentence /
operator inputs; dense-matrix inputs of lie_closure / structure_constants / check_cartan_decomp are out of scope).

(M) spec/alg/LieAlg.tla: exact Lie-algebra notions over real Pauli sentences: the bracket i[a, b], rational linear algebra
    by fraction-free elimination, and the documented Cartan involutions as sign functions on Pauli words.
    spec/gen/LieAlgModel.tla makes TLC decide ON THE REFERENCE: for EVERY word on <= 3 wires and every involution (every
    wire position) the sign equals the documented MATRIX definition evaluated in the exact ring and theta^2 = id; for EVERY
    pair of words theta([x, y]) = [theta x, theta y]; for TLC-generated sentence lists the bracket equals PauliAlg's
    commutator (C51), theta is an automorphism, and the elimination laws hold.
(R) spec -> code: the model emits the expected answer of every involution function for every word; replayed into
    even_odd_involution, concurrence_involution, A, AI, AII, AIII, BD, BDI, C, CI, CII, DIII with PauliSentence, operator
    and dense-matrix arguments.
(T) code -> spec: lie_closure (operator / PauliSentence / PauliWord inputs), structure_constants (orthogonal and
    non-orthogonal variants, operator / Pauli / matrix=True evaluation), PauliVSpace (constructor, add, is_independent),
    cartan_decomp + check_cartan_decomp (also on deliberately broken decompositions) and center are run on exhaustive small
    and seeded generator sets; every OUTPUT is recorded exactly and validated step by step by spec/trace/Trace_LieAlg.tla:
    independence, span contains the generators, closure under commutators, the model closure's dimension, antisymmetry and
    [iG_a, iG_b] = sum_c f^c_ab iG_c for all a < b, independence answers against rational elimination, k / m = the +-1
    eigenvectors, [k,k] in k, [k,m] in m, [m,m] in k, check_cartan_decomp's answer = the truth of the inclusions.
"""
import itertools
import json
import random
from fractions import Fraction
from functools import partial

import numpy as np

import pennylane as qp
from pennylane import liealg
from pennylane.pauli import PauliSentence, PauliVSpace, PauliWord

from .. import lib
from ..lib import CheckResult
from ..paulis import LABEL_POOLS, LET, Agg, make_op, make_pw, ps_to_dict, show_terms

PID = "C55"
M = 3
COEFS = [[1, 0, 0], [1, 0, 0], [1, 0, 0], [-1, 0, 0], [1, 0, 1], [2, 0, 0], [-3, 0, 1], [3, 0, 2], [-1, 0, 1]]
WIRED = ("AII", "AIII", "BDI", "CII", "DIII", "A", "BD", "C")
INVOLUTIONS = ("even_odd", "concurrence", "AI", "CI") + WIRED


# ------------------------------------------------------------------------------------------------ conversions
def to_gd_tol(z, kmax=24, tol=1e-12):
    z = complex(z)
    for k in range(kmax + 1):
        re, im = z.real * (1 << k), z.imag * (1 << k)
        if abs(re - round(re)) < tol * (1 << k) and abs(im - round(im)) < tol * (1 << k):
            if abs(re) < 2 ** 26 and abs(im) < 2 ** 26:
                return [int(round(re)), int(round(im)), k]
            return None
    return None


def num(c):
    return c[0] / (1 << c[2])


def mk_ps(terms, labels):
    d = {}
    for t in terms:
        pw = make_pw(t["w"], labels)
        d[pw] = d.get(pw, 0.0) + num(t["c"])
    return PauliSentence(d)


def mk_op(terms, labels):
    summands = []
    for t in terms:
        c, w = num(t["c"]), make_op(t["w"], labels)
        summands.append(w if c == 1 else qp.s_prod(c, w))
    return summands[0] if len(summands) == 1 else qp.sum(*summands)


def to_terms(x, labels):
    """PauliSentence / PauliWord / operator -> (terms over labels, exact)"""
    if isinstance(x, PauliWord):
        x = PauliSentence({x: 1.0})
    ps = x if isinstance(x, PauliSentence) else qp.pauli.pauli_sentence(x)
    d = ps_to_dict(ps, labels)
    if d is None:
        return [{"w": [9] * len(labels), "c": [0, 0, 0]}], True
    terms, exact = [], True
    for w, c in sorted(d.items()):
        if c == 0:
            continue
        g = to_gd_tol(c)
        if g is None:
            exact, g = False, [0, 0, 0]
        terms.append({"w": list(w), "c": g})
    return terms, exact


def show(terms):
    if any(c not in (0, 1, 2, 3) for t in terms for c in t["w"]):
        return "<operator on a foreign wire>"
    return show_terms(terms)


def show_list(L, cap=6):
    return "[" + "; ".join(show(t) for t in L[:cap]) + (f"; ... {len(L)} elements" if len(L) > cap else "") + "]"


def pick_labels(rng, n, plain=False):
    if plain:
        return list(range(n))
    pool = list(rng.choice(LABEL_POOLS))
    if rng.random() < 0.5:
        rng.shuffle(pool)
    return pool[:n]


BLANK = {"kind": "", "n": 0, "A": [], "B": [], "exact": True, "f": [], "variant": "", "kept": [], "qans": [], "inv": "", "wire": 0,
         "kidx": [], "midx": [], "status": "", "chk": "na", "closed": False}


def rec(**kw):
    r = dict(BLANK)
    r.update(kw)
    return r


# ------------------------------------------------------------------------------------------------ generator sets
def W(s):
    return ["IXYZ".index(ch) for ch in s]


def word_terms(s, c=(1, 0, 0)):
    return [{"w": W(s), "c": list(c)}]


def sent(*pairs):
    return [{"w": W(s), "c": list(c)} for s, c in pairs]


def named_cases(quick):
    one, half = (1, 0, 0), (1, 0, 1)
    out = [
        ("tfim2", 2, [word_terms("XX"), word_terms("ZI"), word_terms("IZ")]),
        ("tfim3-open", 3, [word_terms("XXI"), word_terms("IXX"), word_terms("ZII"), word_terms("IZI"), word_terms("IIZ")]),
        ("tfim3-sums", 3, [sent(("XXI", one), ("IXX", one)), sent(("ZII", one), ("IZI", one), ("IIZ", one))]),
        ("heisenberg2", 2, [sent(("XX", one), ("YY", one), ("ZZ", one))]),
        ("heisenberg3", 3, [sent(("XXI", one), ("YYI", one), ("ZZI", one)), sent(("IXX", one), ("IYY", one), ("IZZ", one))]),
        ("xy2", 2, [sent(("XX", half), ("YY", half)), word_terms("ZI")]),
        ("su2", 1, [word_terms("X"), word_terms("Y")]),
        ("su4", 2, [word_terms("XI"), word_terms("ZI"), word_terms("IX"), word_terms("IZ"), word_terms("ZZ")]),
        ("doc-center", 2, [word_terms("XI"), word_terms("XX"), word_terms("IY")]),
        ("abelian", 3, [word_terms("ZII"), word_terms("IZI"), word_terms("ZZI"), word_terms("IIZ")]),
        ("dependent-gens", 2, [word_terms("XX"), sent(("XX", (2, 0, 0))), word_terms("ZI"), sent(("XX", one), ("ZI", (-1, 0, 0))), word_terms("IZ")]),
        ("with-identity", 2, [sent(("XI", one), ("II", one)), word_terms("ZI"), word_terms("II")]),
        ("non-orthogonal-doc", 1, [word_terms("X"), word_terms("Y"), sent(("X", one), ("Z", (-1, 0, 0)))]),
        ("scaled", 2, [sent(("XY", (3, 0, 1))), sent(("ZI", (-1, 0, 1))), sent(("IZ", (2, 0, 0)))]),
        ("xxz3", 3, [sent(("XXI", one), ("YYI", one)), sent(("IXX", one), ("IYY", one)), sent(("ZZI", half), ("IZZ", half))]),
    ]
    if not quick:
        out.append(("su8", 3, [word_terms("XII"), word_terms("ZII"), word_terms("IXI"), word_terms("IZI"), word_terms("IIX"), word_terms("IIZ"),
                               word_terms("ZZI"), word_terms("IZZ")]))
        out.append(("tfim3-periodic", 3, [word_terms("XXI"), word_terms("IXX"), word_terms("XIX"), word_terms("ZII"), word_terms("IZI"), word_terms("IIZ")]))
    return out


def random_case(rng, nmax):
    n = rng.choice([1, 2, 2, 3, 3, 3][:{1: 1, 2: 3, 3: 6}[nmax]])
    k = rng.randint(1, 4)
    pool = [[rng.randint(0, 3) for _ in range(n)] for _ in range(rng.randint(2, 6))]
    pool = [w for w in pool if any(w)] or [[1] + [0] * (n - 1)]
    gens = []
    for _ in range(k):
        if rng.random() < 0.6:
            gens.append([{"w": list(rng.choice(pool)), "c": list(rng.choice(COEFS))}])
        else:
            ws = []
            for _ in range(rng.randint(2, 3)):
                w = list(rng.choice(pool))
                if w not in ws:
                    ws.append(w)
            gens.append([{"w": w, "c": list(rng.choice(COEFS))} for w in ws])
    if rng.random() < 0.25 and gens:     # a linearly dependent generator: a multiple or a combination of earlier ones
        a, b = rng.choice(gens), rng.choice(gens)
        d = {}
        for t, lam in [(x, 2) for x in a] + [(x, -1) for x in b]:
            key = tuple(t["w"])
            d[key] = d.get(key, Fraction(0)) + lam * Fraction(t["c"][0], 1 << t["c"][2])
        comb = [{"w": list(wd), "c": to_gd_tol(float(v))} for wd, v in sorted(d.items()) if v != 0]
        if comb:
            gens.insert(rng.randint(0, len(gens)), comb)
    return n, gens


def small_enough(L, bound=2 ** 11):
    """TLC works with the primitive integer multiple of every element in 32-bit integers: its entries must stay small"""
    for e in L:
        if not e:
            continue
        K = max(t["c"][2] for t in e)
        ints = [t["c"][0] << (K - t["c"][2]) for t in e]
        g = 0
        for x in ints:
            g = int(np.gcd(g, abs(x)))
        if g == 0 or max(abs(x) // g for x in ints) >= bound or K > 12:
            return False
    return True


def bracket_cost(L):
    s = [len(t) for t in L]
    tot = sum(s)
    return (tot * tot - sum(x * x for x in s)) // 2


# ------------------------------------------------------------------------------------------------ driver
class Ctx:
    def __init__(self, rng, budget):
        self.rng = rng
        self.recs, self.meta = [], []
        self.agg = Agg()
        self.stats = {}
        self.budget = budget
        self.n_calls = 0

    def count(self, k, d=1):
        self.stats[k] = self.stats.get(k, 0) + d

    def add(self, r, **meta):
        self.recs.append(r)
        self.meta.append(meta)
        self.count("records:" + r["kind"] + (":" + r["variant"] if r["variant"] else ""))

    def call(self, key, info, thunk):
        self.n_calls += 1
        try:
            return thunk()
        except Exception as ex:  # noqa: BLE001 - an exception on a valid input is itself a failure
            self.agg.add(f"{key}:raised:{type(ex).__name__}", f"{key} raised {type(ex).__name__}: {ex} on {info}", {"input": info})
            return None


def inv_fn(kind, n, wire):
    f = getattr(liealg, {"even_odd": "even_odd_involution", "concurrence": "concurrence_involution"}.get(kind, kind))
    if kind in ("AIII", "BDI", "CII"):
        return partial(f, p=2 ** (n - 1), q=2 ** (n - 1), wire=wire)
    if kind in WIRED:
        return partial(f, wire=wire)
    return f


def rationalize(f, A):
    """(d,d,d) float array -> per (a, b) list of [c, num, den] (1-based c); None when an entry is not a small rational or the
    exact check would leave TLC's 32-bit integers (such tensors cannot be decided exactly and are skipped, counted)"""
    d = f.shape[0]
    if f.shape != (d, d, d) or d != len(A):
        return "shape"
    out = [[[] for _ in range(d)] for _ in range(d)]
    if any(abs(t["c"][0]) >= 2 ** 10 or t["c"][2] > 6 for e in A for t in e):
        return None
    cmax = max([abs(t["c"][0]) for e in A for t in e] + [1]) * (1 << max([t["c"][2] for e in A for t in e] + [0]))
    for c, a, b in zip(*np.nonzero(np.abs(f) > 1e-10)):
        v = float(f[c, a, b])
        fr = Fraction(v).limit_denominator(20000)
        if abs(float(fr) - v) > 1e-9:
            return None
        out[a][b].append([int(c) + 1, fr.numerator, fr.denominator])
    for a in range(d):
        for b in range(d):
            if out[a][b]:
                L = 1
                for _, _, de in out[a][b]:
                    L = L * de // np.gcd(L, de)
                if max(abs(nu) * (L // de) for _, nu, de in out[a][b]) * cmax * 4 >= 2 ** 30 or L * cmax * cmax * 8 >= 2 ** 30:
                    return None
    return out


def sc_record(cx, n, A, f, variant, info):
    fr = rationalize(f, A)
    if fr == "shape":
        cx.agg.add(f"structure_constants:{variant}:shape", f"structure constants of shape {f.shape} for a basis of {len(A)} elements on {info}", {"input": info})
        return False
    if fr is None:
        cx.count(f"skipped:sc-{variant}-not-a-small-rational-tensor")
        return False
    cx.add(rec(kind="sc", n=n, A=A, f=fr, variant=variant), info=info)
    return True


def closure_case(cx, tag, n, gens, form, labels):
    rng = cx.rng
    info = {"case": tag, "n": n, "form": form, "generators": [show(g) for g in gens], "labels": [str(l) for l in labels]}
    if form == "word":
        inp = [make_pw(g[0]["w"], labels) for g in gens]
        out = cx.call("lie_closure:pauli", info, lambda: qp.lie_closure(inp, pauli=True))
    elif form == "pauli":
        inp = [mk_ps(g, labels) for g in gens]
        out = cx.call("lie_closure:pauli", info, lambda: qp.lie_closure(inp, pauli=True))
    else:
        inp = [mk_op(g, labels) for g in gens]
        out = cx.call("lie_closure:operator", info, lambda: qp.lie_closure(inp))
    if out is None:
        return
    conv = [to_terms(x, labels) for x in out]
    A, exact = [c[0] for c in conv], all(c[1] for c in conv)
    d = len(A)
    cx.count(f"closure:form:{form}")
    cx.count("closure:dim>=10" if d >= 10 else "closure:dim<10")
    if any(len(t) > 1 for t in A):
        cx.count("closure:sentence-basis")
    if d < len(gens):
        cx.count("closure:dependent-generators-dropped")
    cost = bracket_cost(A)
    if cost > cx.budget or d > 70 or not small_enough(A) or not small_enough(gens):
        cx.count("skipped:closure-too-large-for-tlc")
        return
    cx.add(rec(kind="closure", n=n, A=A, B=gens, exact=exact), info=info)
    pauli_form = form != "operator"
    # ---- structure constants
    if 2 <= d <= 16 and exact:
        for variant, orth in (("nonorth", False), ("orth", True)):
            f = cx.call(f"structure_constants:{variant}", info, lambda orth=orth: qp.structure_constants(out, pauli=pauli_form, is_orthogonal=orth))
            if f is not None:
                sc_record(cx, n, A, np.asarray(f), variant, dict(info, call=f"structure_constants(is_orthogonal={orth})"))
        if form == "operator" and labels == list(range(n)) and set().union(*[set(o.wires) for o in out]) == set(range(n)):
            f = cx.call("structure_constants:matrix", info, lambda: qp.structure_constants(out, matrix=True, is_orthogonal=False))
            if f is not None and sc_record(cx, n, A, np.asarray(f), "nonorth", dict(info, call="structure_constants(matrix=True, is_orthogonal=False)")):
                cx.count("sc:matrix-evaluation")
    # ---- Cartan decompositions
    if d >= 2 and exact and cost <= cx.budget // 2:
        kinds = ["even_odd", "concurrence"] + rng.sample([k for k in INVOLUTIONS if k not in ("even_odd", "concurrence")], 2)
        for kind in kinds:
            pos = rng.randint(1, n) if kind in WIRED else 0
            cartan_case(cx, info, n, out, A, kind, pos, labels)
    # ---- center (evidence only)
    if d >= 1 and all(len(t) == 1 for t in A):
        cen = cx.call("center", info, lambda: qp.center(out, pauli=pauli_form))
        if cen is not None:
            idx = []
            for x in cen:
                tx = to_terms(x, labels)[0]
                idx.append(A.index(tx) + 1 if tx in A else 0)
            cx.add(rec(kind="center", n=n, A=A, kidx=idx), info=info)


def cartan_case(cx, info, n, g, A, kind, pos, labels):
    rng = cx.rng
    wire = labels[pos - 1] if pos else None
    f = inv_fn(kind, n, wire)
    info = dict(info, involution=kind, wire=str(wire))
    cx.n_calls += 1
    try:
        k, m = liealg.cartan_decomp(g, f)
        status = "ok"
    except Exception as ex:  # noqa: BLE001 - allowed when an element is not an eigenvector of the involution (TLC decides)
        k, m, status = [], [], "raised"
        info = dict(info, raised=f"{type(ex).__name__}: {str(ex)[:200]}")
    ids = {id(x): i + 1 for i, x in enumerate(g)}
    kidx, midx = [ids.get(id(x), 0) for x in k], [ids.get(id(x), 0) for x in m]
    chk = "na"
    if status == "ok":
        c = cx.call("check_cartan_decomp", info, lambda: liealg.check_cartan_decomp(k, m, verbose=False))
        if c is None:
            return
        chk = "true" if c else "false"
    cx.add(rec(kind="cartan", n=n, A=A, inv=kind, wire=pos, kidx=kidx, midx=midx, status=status, chk=chk, closed=True), info=info)
    # deliberately broken decompositions: check_cartan_decomp must notice exactly when the inclusions fail
    if status == "ok" and len(k) + len(m) >= 3 and rng.random() < 0.6:
        kk, mm = list(kidx), list(midx)
        how = rng.choice(["move-k-to-m", "move-m-to-k", "drop-from-k", "swap"])
        if how == "move-k-to-m" and kk:
            mm.append(kk.pop(rng.randrange(len(kk))))
        elif how == "move-m-to-k" and mm:
            kk.append(mm.pop(rng.randrange(len(mm))))
        elif how == "drop-from-k" and kk:
            kk.pop(rng.randrange(len(kk)))
        else:
            kk, mm = mm, kk
        kl, ml = [g[i - 1] for i in kk], [g[i - 1] for i in mm]
        info2 = dict(info, mutation=how)
        c = cx.call("check_cartan_decomp", info2, lambda: liealg.check_cartan_decomp(kl, ml, verbose=False))
        if c is not None:
            cx.add(rec(kind="cartan_check", n=n, A=[A[i - 1] for i in kk], B=[A[i - 1] for i in mm], chk="true" if c else "false"), info=info2)


def vspace_case(cx, n, gens, labels, mode):
    rng = cx.rng
    info = {"n": n, "mode": mode, "sentences": [show(g) for g in gens], "labels": [str(l) for l in labels]}
    pss = [mk_ps(g, labels) for g in gens]
    if mode == "ctor":
        vs = cx.call("PauliVSpace", info, lambda: PauliVSpace(pss))
        if vs is None:
            return
        kept, j = [], 0
        for ps in pss:
            if j < len(vs.basis) and vs.basis[j] is ps:
                kept.append(True)
                j += 1
            else:
                kept.append(False)
        if j != len(vs.basis):
            cx.agg.add("PauliVSpace:basis-not-a-subsequence", f"basis {vs.basis} is not a subsequence of the generators on {info}", {"input": info})
            return
    else:
        first = mk_op(gens[0], labels) if mode == "add-operator" else pss[0]
        vs = cx.call("PauliVSpace", info, lambda: PauliVSpace([first]))
        if vs is None:
            return
        kept = [len(vs.basis) == 1]
        for g, ps in zip(gens[1:], pss[1:]):
            before = len(vs.basis)
            arg = mk_op(g, labels) if mode == "add-operator" else ps
            if cx.call("PauliVSpace.add", info, lambda arg=arg: vs.add(arg)) is None:
                return
            kept.append(len(vs.basis) > before)
    # queries: combinations (dependent), perturbed combinations and fresh words (mostly independent)
    queries = []
    words = sorted({tuple(t["w"]) for g in gens for t in g})
    for _ in range(4):
        d = {}
        for g in gens:
            lam = rng.choice([0, 0, 1, -1, 2])
            for t in g:
                d[tuple(t["w"])] = d.get(tuple(t["w"]), Fraction(0)) + lam * Fraction(t["c"][0], 1 << t["c"][2])
        r = rng.random()
        if r < 0.35 and words:
            w = rng.choice(words)
            d[w] = d.get(w, Fraction(0)) + rng.choice([1, -1, Fraction(1, 2)])
        elif r < 0.55:
            w = tuple(rng.randint(0, 3) for _ in range(n))
            d[w] = d.get(w, Fraction(0)) + 1
        q = [{"w": list(w), "c": to_gd_tol(float(v))} for w, v in sorted(d.items()) if v != 0]
        if q:
            queries.append(q)
    qans = []
    for q in queries:
        a = cx.call("PauliVSpace.is_independent", info, lambda q=q: vs.is_independent(mk_ps(q, labels)))
        if a is None:
            return
        qans.append(bool(a))
    if not small_enough(gens) or not small_enough(queries):
        cx.count("skipped:vspace-too-large-for-tlc")
        return
    cx.add(rec(kind="vspace", n=n, A=gens, B=queries, kept=[bool(x) for x in kept], qans=qans), info=info)
    cx.count(f"vspace:{mode}")
    cx.count("vspace:dependent-input-rejected", sum(1 for x in kept if not x))
    cx.count("vspace:queries-independent", sum(qans))
    cx.count("vspace:queries-dependent", len(qans) - sum(qans))


# ------------------------------------------------------------------------------------------------ involution replay
def replay_involutions(cx, cases):
    n_eval = 0
    for c in sorted(cases, key=lambda c: (c["n"], c["a"])):
        n, a = c["n"], c["a"]
        labels = list(range(n))
        pw = make_pw(a, labels)
        ps = PauliSentence({pw: 1.0})
        op = make_op(a, labels)
        mat = np.asarray(qp.matrix(op, wire_order=labels)) if any(a) else np.eye(2 ** n, dtype=complex)
        for s in sorted(c["signs"], key=lambda s: (s["k"], s["p"])):
            kind, pos, exp = s["k"], s["p"], s["s"] == 1
            wire = pos - 1 if pos else None
            f = inv_fn(kind, n, wire)
            forms = [("pauli", ps), ("operator", op)]
            if kind != "CII":        # K_pq of CII acts on twice the dimension in matrix form: out of scope
                forms.append(("matrix", mat))
            for form, arg in forms:
                if form == "operator" and kind == "concurrence" and not any(a):
                    continue        # Identity().matrix() of the wire-less case is 2x2 regardless of n: same answer, skip the bookkeeping
                n_eval += 1
                try:
                    got = bool(f(arg))
                    why = None if got == exp else f"returned {got}, the documented involution has eigenvalue {'+1' if exp else '-1'} (expected {exp})"
                except Exception as ex:  # noqa: BLE001
                    why = f"raised {type(ex).__name__}: {ex}"
                if why:
                    cx.agg.add(f"involution:{kind}:{form}", f"{kind}({''.join(LET[x] for x in a)}, wire={wire}) as {form}: {why}",
                               {"word": a, "involution": kind, "wire": wire, "form": form})
                else:
                    cx.count("involution-answers-agree")
    return n_eval


# ------------------------------------------------------------------------------------------------ run
def run_trace(name, recs):
    wd = lib.workdir(PID, name)
    (wd / "traces.json").write_text(json.dumps(recs))
    r = lib.run_tlc("Trace_LieAlg", lib.cfg(constants={"M": M, "NTRACES": len(recs)}, invariants=["EchelonInv", "ModelInv"]), wd,
                    env={"TRACE_FILE": str(wd / "traces.json")}, timeout=3000)
    if r.invariant_violated:
        raise lib.MachineryError(f"model invariant {r.invariant_violated} of the elimination violated (oracle error): " + r.out[-1500:])
    lib.require_ok(r, f"Trace_LieAlg {name}")
    verd = {t[1] - 1: (t[2], t[3]) for t in r.tuples if t[0] == "V"}
    if len(verd) != len(recs):
        raise lib.MachineryError(f"verdicts are not total: {len(verd)} of {len(recs)}")
    return verd, r


def run(tier, seed):
    rng = random.Random(seed)
    quick = tier == "quick"
    # ---- (M) + (R): the reference decided on itself; expected involution answers
    wd = lib.workdir(PID, "model")
    NS = 150 if quick else 1000
    g = lib.run_tlc("LieAlgModel", lib.cfg(constants={"M": M, "NW": 3, "NS": NS, "SEED": seed % 1000}, invariants=["Lawful"]), wd, timeout=3000)
    if g.invariant_violated:
        raise lib.MachineryError("the reference Lie-algebra notions violate their own laws (oracle error): " + g.out[-1500:])
    lib.require_ok(g, "LieAlgModel")
    inv_cases = [c for c in g.json_lines if c.get("kind") == "inv"]
    if len(inv_cases) != 4 + 16 + 64:
        raise lib.MachineryError(f"LieAlgModel emitted {len(inv_cases)} involution cases, expected 84")
    cx = Ctx(rng, budget=40000 if quick else 100000)
    n_inv = replay_involutions(cx, inv_cases)
    # ---- (T) closures, structure constants, Cartan decompositions
    forms = ["pauli", "operator"]
    cases = []
    for tag, n, gens in named_cases(quick):
        cases.append((tag, n, gens))
    words2 = [list(w) for w in itertools.product(range(4), repeat=2) if any(w)]
    pairs = list(itertools.combinations(words2, 2))
    if quick:
        pairs = rng.sample(pairs, 40)
    for a, b in pairs:
        cases.append(("pair2", 2, [[{"w": a, "c": [1, 0, 0]}], [{"w": b, "c": [1, 0, 0]}]]))
    for sub in itertools.chain.from_iterable(itertools.combinations([[1], [2], [3]], r) for r in (1, 2, 3)):
        cases.append(("one-qubit", 1, [[{"w": w, "c": [1, 0, 0]}] for w in sub]))
    for i in range(60 if quick else 500):
        n, gens = random_case(rng, 3)
        cases.append((f"random{i}", n, gens))
    for i, (tag, n, gens) in enumerate(cases):
        all_words = all(len(gn) == 1 and gn[0]["c"] == [1, 0, 0] for gn in gens)
        form = "word" if all_words and i % 3 == 0 else forms[i % 2]
        plain = form == "operator" and i % 4 == 1
        closure_case(cx, tag, n, gens, form, pick_labels(rng, n, plain))
    # ---- PauliVSpace
    for i in range(60 if quick else 500):
        n, gens = random_case(rng, 3)
        extra = random_case(rng, n)[1] if rng.random() < 0.5 else []
        gens = gens + [e for e in extra if all(len(t["w"]) == n for t in e)]
        if rng.random() < 0.5 and len(gens) >= 2:       # make a dependency over a shared support likely
            gens.append([dict(t) for t in gens[0]] + [dict(t) for t in gens[1] if t["w"] not in [u["w"] for u in gens[0]]])
        vspace_case(cx, n, gens[:7], pick_labels(rng, n), ["ctor", "add", "add-operator"][i % 3])
    recs, meta = cx.recs, cx.meta
    # ---- negative controls (corrupted recordings must be rejected)
    def clone(r):
        return json.loads(json.dumps(r))
    ctrl = []
    cl = [r for r in recs if r["kind"] == "closure" and r["exact"] and len(r["A"]) >= 3]
    sc = [r for r in recs if r["kind"] == "sc" and r["exact"] and any(any(x) for x in r["f"])]
    vsp = [r for r in recs if r["kind"] == "vspace" and len(r["kept"]) >= 2 and r["qans"]]
    ca = [r for r in recs if r["kind"] == "cartan" and r["status"] == "ok" and r["kidx"] and r["midx"]]
    if not (cl and sc and vsp and ca):
        raise lib.MachineryError("no recording suitable for the negative controls")
    for base in (cl[0], cl[len(cl) // 2], cl[-1]):
        b1 = clone(base); b1["A"] = b1["A"][:-1]                                   # an element dropped: not closed / generator missing
        b2 = clone(base); b2["A"].append(clone(b2["A"][0]))                        # an element repeated: dependent
        ctrl += [b1, b2]
    for base in (sc[0], sc[-1]):
        b1 = clone(base)
        a, b = next((a, b) for a in range(len(b1["f"])) for b in range(len(b1["f"])) if b1["f"][a][b])
        b1["f"][a][b][0][1] += 1; b1["f"][b][a] = [[c, -nu, de] for c, nu, de in b1["f"][a][b]]   # one constant off (kept antisymmetric)
        b2 = clone(base); b2["f"][a][b] = []                                        # antisymmetry broken
        ctrl += [b1, b2]
    for base in (vsp[0], vsp[-1]):
        b1 = clone(base); b1["kept"][-1] = not b1["kept"][-1]
        b2 = clone(base); b2["qans"][0] = not b2["qans"][0]
        ctrl += [b1, b2]
    for base in (ca[0], ca[-1]):
        b1 = clone(base); b1["midx"] = b1["midx"] + [b1["kidx"][-1]]; b1["kidx"] = b1["kidx"][:-1]     # an element in the wrong part
        b2 = clone(base); b2["chk"] = "false" if b2["chk"] == "true" else "true"
        ctrl += [b1, b2]
    verd, tr = run_trace("trace", recs + ctrl)
    neg = 0
    for j in range(len(recs), len(recs) + len(ctrl)):
        if verd[j][0] == "ok":
            raise lib.MachineryError("negative control accepted by Trace_LieAlg: " + json.dumps(ctrl[j - len(recs)])[:600])
        neg += 1
    # ---- verdicts
    ok, skipped, drift, nontriv = 0, {}, {"closure_dimension_differs_from_model": 0, "center_differs": 0, "center_agrees": 0}, set()
    rel_hold, rel_fail = 0, 0
    for j, r in enumerate(recs):
        v, aux = verd[j]
        info = meta[j]["info"]
        if aux == "relations-hold":
            rel_hold += 1
        elif aux == "relations-fail":
            rel_fail += 1
        if v.startswith("skip-"):
            skipped[v] = skipped.get(v, 0) + 1
            continue
        if r["kind"] == "center":
            drift["center_agrees" if v == "ok" else "center_differs"] += 1
            continue
        if v != "ok":
            key = f"{r['kind']}{':' + r['variant'] if r['variant'] else ''}{':' + r['inv'] if r['inv'] else ''}:{info.get('form', info.get('mode', ''))}:{v}"
            cx.agg.add(key, f"{r['kind']} on {info}: output {show_list(r['A'])}"
                            + (f" k={r['kidx']} m={r['midx']} check={r['chk']}" if r["kind"].startswith("cartan") else "") + f" -> {v}",
                       {"record": r if len(json.dumps(r)) < 20000 else {"kind": r["kind"], "A": r["A"]}, "input": info})
            continue
        ok += 1
        if r["kind"] == "closure" and aux == "dim-differs":
            drift["closure_dimension_differs_from_model"] += 1
        if (r["kind"] == "closure" and len(r["A"]) > len(r["B"])) or (r["kind"] == "sc") or (r["kind"].startswith("cartan") and r["A"]) \
                or (r["kind"] == "vspace" and not all(r["kept"])):
            nontriv.add(json.dumps([r["kind"], r["variant"], r["inv"], r["wire"], r["A"], r["B"], r["kidx"]]))
    for need in ("records:closure", "records:sc:orth", "records:sc:nonorth", "records:vspace", "records:cartan", "records:cartan_check", "records:center",
                 "closure:form:word", "closure:form:pauli", "closure:form:operator", "closure:sentence-basis", "closure:dim>=10",
                 "closure:dependent-generators-dropped", "vspace:ctor", "vspace:add", "vspace:add-operator", "vspace:dependent-input-rejected",
                 "vspace:queries-independent", "vspace:queries-dependent", "sc:matrix-evaluation", "involution-answers-agree"):
        if not cx.stats.get(need):
            raise lib.MachineryError(f"vacuity: nothing exercised '{need}'")
    if not rel_hold or not rel_fail:
        raise lib.MachineryError(f"vacuity: Cartan inclusions hold on {rel_hold} and fail on {rel_fail} recorded decompositions")
    if not skipped.get("skip-not-orthogonal"):
        raise lib.MachineryError("vacuity: no non-orthogonal basis reached structure_constants")
    def sample(kind, pred=lambda r: True):
        for j, r in enumerate(recs):
            if r["kind"] == kind and verd[j][0] == "ok" and pred(r):
                s = {"kind": kind, "input": {k: v for k, v in meta[j]["info"].items() if k in ("case", "form", "generators", "involution", "wire", "mode", "sentences", "mutation", "call")},
                     "output": show_list(r["A"], 8), "verdict": list(verd[j])}
                if kind == "sc":
                    s["f[1][2]"] = r["f"][0][1] if len(r["f"]) > 1 else []
                if kind.startswith("cartan"):
                    s.update(k=r["kidx"], m=r["midx"], check=r["chk"])
                if kind == "vspace":
                    s.update(kept=r["kept"], queries=[show(q) for q in r["B"]], answers=r["qans"])
                return s
        return None
    samples = [s for s in (sample("closure", lambda r: len(r["A"]) > len(r["B"]) and any(len(t) > 1 for t in r["A"])), sample("sc", lambda r: r["variant"] == "nonorth" and len(r["A"]) >= 3),
                           sample("cartan", lambda r: r["kidx"] and r["midx"]), sample("cartan_check", lambda r: r["chk"] == "false"), sample("vspace", lambda r: not all(r["kept"]))) if s]
    cov = {"states": g.distinct + tr.distinct, "transitions": g.generated + tr.generated,
           "traces_validated_against_impl": len(recs), "traces_ok": ok, "evaluations": cx.n_calls + n_inv,
           "distinct_nontrivial": len(nontriv),
           "rule": "distinct recordings accepted by TLC: closures with more elements than generators, structure-constant tensors, Cartan decompositions / checks of non-empty algebras, vector spaces that rejected a dependent sentence",
           "samples": samples, "exhaustive": True,
           "exhaustive_part": "involutions: every Pauli word on 1..3 wires x every involution x every wire position x {PauliSentence, operator, dense matrix}; model laws on every pair of words on <= 3 wires"
                              + ("" if quick else "; closures of every pair of 2-qubit words"),
           "sampled_part": f"{len(cases)} generator sets (named models, {'40 sampled' if quick else 'all 105'} pairs of 2-qubit words, 1-qubit subsets, seeded words / sentences with dyadic coefficients on <= 3 qubits); {60 if quick else 500} PauliVSpace histories; {NS} TLC-generated sentence lists for the model laws",
           "involution_answers_replayed": n_inv, "negative_controls_rejected": neg,
           "outside_documented_precondition": skipped,
           "cartan_inclusions": {"hold": rel_hold, "fail": rel_fail},
           "model_drift": drift, "counts": dict(sorted(cx.stats.items())),
           "tlc": {"model": {"generated": g.generated, "distinct": g.distinct, "wall_s": round(g.wall_s, 1), "invariant": "Lawful"},
                   "trace": {"generated": tr.generated, "distinct": tr.distinct, "wall_s": round(tr.wall_s, 1), "invariants": "EchelonInv, ModelInv"}}}
    return CheckResult(coverage=cov, violations=cx.agg.violations(),
                       assumptions=["partial: generators are Hermitian Pauli words / sentences with real dyadic coefficients on <= 3 qubits in PauliWord, PauliSentence and operator form; "
                                    "dense-matrix inputs (lie_closure(matrix=True), structure_constants on matrices, check_cartan_decomp on matrices) are not decided "
                                    "(their orthonormalised outputs are not exactly representable)",
                                    "structure constants are floats; they are read back as fractions (denominator <= 20000, 1e-9) and verified exactly by substitution",
                                    "the default structure_constants (is_orthogonal=True) is judged only on orthogonal bases, involutions only on eigenvectors (documented assumptions)",
                                    "closures whose pairwise bracket cost exceeds the TLC budget are skipped (counted)",
                                    "center and the minimality of the closure are reported as drift (not part of the statement)"])
