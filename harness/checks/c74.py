"""C74 MBQC conversion and Pauli tracking preserve the circuit.

(A) Pauli tracking.  spec/sys/PauliFrame.tla: frame (x, z) per wire, one action per Clifford of {H, S, CNOT, X, Y, Z, I};
    TLC checks on every transition, for every frame, the PROPERTY C P C^dagger = scalar * P' on exact matrices (Sound),
    uniqueness of the image and linearity.  TRACE: every call commute_clifford_op(C, frame) (exhaustive over gates x
    frames) and seeded histories of such calls are validated by Trace_PauliFrame.tla against the exact matrices.
(B) Conversion to the MBQC formalism.  Small circuits over {H, S, RZ, RotXZX, CNOT, X, Y, Z} at lattice angles are
    converted with convert_to_mbqc_formalism (parametric mid-circuit measurements; diagonalize_mcms=True; the
    diagonalize_mcms transform), the converted tape is encoded (harness/mbqc.py) and Trace_Mbqc.tla enumerates EVERY
    measurement-outcome branch (TLC nondeterminism; sampled histories for the 13-measurement CNOT pattern in the quick
    tier) and decides exactly at each leaf that the logical wires carry U|0..0> up to a global phase.
(C) convert_to_mbqc_gateset: unitary equivalence up to phase (TLC emits the exact input unitary, float bridge for the
    off-lattice XZX angles of the output).
(D) get_byproduct_corrections (offline tracking): the converted tape WITHOUT its online byproduct corrections is followed
    along measurement histories, the X corrections returned by the code for that history are applied, and TLC decides
    that the computational-basis distribution of the logical wires is that of the original circuit."""
import itertools
import json
import math
import random

import numpy as np

import pennylane as qp
from pennylane.ftqc import RotXZX, commute_clifford_op, convert_to_mbqc_formalism, convert_to_mbqc_gateset, diagonalize_mcms
from pennylane.ftqc import get_byproduct_corrections
from pennylane.ops.op_math import Conditional

from .. import bridge, lib, mbqc, rel
from ..codec import encode_op, rec, wire_positions
from ..lib import CheckResult, Violation, angle_of

M = 4          # conversion: angles k*pi/4
MF = 3         # Pauli frames: Clifford ring


def th(a):
    return angle_of(a, M)


# ================================================================================================ (A) Pauli frames
PL = {"Hadamard": qp.Hadamard, "S": qp.S, "CNOT": qp.CNOT, "PauliX": qp.PauliX, "PauliY": qp.PauliY, "PauliZ": qp.PauliZ,
      "Identity": qp.Identity}


def _grec(g, w):
    return {"g": g, "w": list(w), "p": [], "x": [], "m": [], "mods": []}


def _track(seq, f0, nw):
    """drive commute_clifford_op along a gate sequence; -> (outs, exc)"""
    f = [tuple(p) for p in f0]
    outs = []
    for g, w in seq:
        op = PL[g](wires=[i - 1 for i in w])
        try:
            new = commute_clifford_op(op, [f[i - 1] for i in w])
        except Exception as e:  # noqa: BLE001
            return outs, type(e).__name__
        new = [tuple(int(b) for b in p) for p in new]
        if len(new) != len(w) or any(len(p) != 2 or any(b not in (0, 1) for b in p) for p in new):
            return outs, "malformed-result"
        for i, p in zip(w, new):
            f[i - 1] = p
        outs.append([list(p) for p in f])
    return outs, ""


def frame_cases(tier, rng, nw):
    cases, meta = [], []
    bits = list(itertools.product([0, 1], repeat=2))
    places1 = [[i] for i in range(1, nw + 1)]
    places2 = [[i, j] for i in range(1, nw + 1) for j in range(1, nw + 1) if i != j]
    # exhaustive single steps: every gate x placement x frame of the whole register
    for g in PL:
        for w in (places2 if g == "CNOT" else places1):
            for f0 in itertools.product(bits, repeat=nw):
                outs, exc = _track([(g, w)], f0, nw)
                cases.append({"seq": [_grec(g, w)], "f": [list(p) for p in f0], "outs": outs, "exc": exc})
                meta.append(("step", g, w))
    # seeded histories over the supported gates
    nh = 150 if tier == "quick" else 3000
    for _ in range(nh):
        L = rng.randint(2, 8)
        seq = []
        for _ in range(L):
            g = rng.choice(["Hadamard", "S", "CNOT", "CNOT"])
            seq.append((g, rng.choice(places2 if g == "CNOT" else places1)))
        f0 = [rng.choice(bits) for _ in range(nw)]
        outs, exc = _track(seq, f0, nw)
        cases.append({"seq": [_grec(g, w) for g, w in seq], "f": [list(p) for p in f0], "outs": outs, "exc": exc})
        meta.append(("history", "+".join(g for g, _ in seq), None))
    return cases, meta


COMBINED = """---- MODULE MC_PauliFrame ----
EXTENDS Trace_PauliFrame
\\* one TLC run: the model (tid = 0, every frame initial, every gate) and the recorded traces (tid >= 1)
CInit == TInit \\/ (Init /\\ tid = 0 /\\ pos = 0 /\\ U = <<>> /\\ bad = "" /\\ drift = 0)
CNext == (tid >= 1 /\\ TNext) \\/ (tid = 0 /\\ Next /\\ UNCHANGED <<tid, pos, U, bad, drift>>)
MSound == tid # 0 \\/ Sound
MLinear == tid # 0 \\/ Linear
MUnique == tid # 0 \\/ Unique
====
"""


def run_frames(tier, rng, viol, cov):
    nw = 2 if tier == "quick" else 3
    cases, meta = frame_cases(tier, rng, nw)
    nreal = len(cases)
    # negative controls: flip one recorded bit of a supported-gate step
    neg = []
    for k in range(0, nreal, max(1, nreal // 12)):
        c = cases[k]
        if c["outs"]:
            bad = json.loads(json.dumps(c))
            bad["outs"][-1][0][0] ^= 1
            neg.append((len(cases), k))
            cases.append(bad)
    wd = lib.workdir("C74", "frames")
    (wd / "cases.json").write_text(json.dumps(cases))
    text = lib.cfg(init="CInit", next_="CNext", constants={"M": MF, "NW": nw, "NCASES": len(cases)},
                   invariants=["MSound", "MLinear", "MUnique"])
    r = lib.run_tlc("MC_PauliFrame", text, wd, env={"TRACE_FILE": str(wd / "cases.json")}, extra_modules={"MC_PauliFrame": COMBINED})
    if r.invariant_violated:
        raise lib.MachineryError(f"PauliFrame.tla violates its own invariant {r.invariant_violated} (the model is wrong)")
    lib.require_ok(r, "PauliFrame model + traces")
    verd = {t[1] - 1: (t[2], t[3]) for t in r.tuples if t[0] == "V"}
    if len(verd) != len(cases):
        raise lib.MachineryError(f"frame verdicts are not total: {len(verd)} of {len(cases)}")
    hist, drift, nsteps = {}, 0, 0
    for k in range(nreal):
        clause, d = verd[k]
        hist[clause] = hist.get(clause, 0) + 1
        drift += d
        nsteps += len(cases[k]["outs"])
        if not clause.startswith("ok"):
            kind, g, w = meta[k]
            viol.append(Violation(key=f"commute_clifford_op:{g if kind == 'step' else 'history'}:{clause}",
                                  detail=f"commute_clifford_op {kind} {g} on wires {w}: frame {cases[k]['f']} -> {cases[k]['outs']} "
                                         f"exc={cases[k]['exc']!r}: {clause} (exact C P C^dagger differs)",
                                  replay={"case": cases[k]}))
    neg = [k for k, src in neg if verd[src][0].startswith("ok")]     # controls derived from accepted records only
    nneg = sum(1 for k in neg if not verd[k][0].startswith("ok"))
    if (not neg and not viol) or nneg != len(neg):
        raise lib.MachineryError(f"frame negative controls: {nneg} of {len(neg)} rejected")
    cov["frames"] = {"register_wires": nw, "model_states": r.distinct, "model_transitions": r.generated,
                     "invariants": ["Sound (C P C^dagger = c P')", "Unique", "Linear"],
                     "trace_cases": nreal, "tracked_steps": nsteps, "verdicts": hist, "model_drift": drift,
                     "negative_controls_rejected": nneg}
    return r.distinct, r.generated, nreal, nsteps


# ================================================================================================ (B) conversion
def g_h(w=0):
    return ("H", lambda: qp.Hadamard(w))


def g_s(w=0):
    return ("S", lambda: qp.S(w))


def g_rz(a, w=0):
    return (f"RZ({a})", lambda: qp.RZ(th(a), w))


def g_xzx(a, b, c, w=0):
    return (f"RotXZX({a},{b},{c})", lambda: RotXZX(th(a), th(b), th(c), w))


def g_p(name, w=0):
    return (name, lambda: {"X": qp.PauliX, "Y": qp.PauliY, "Z": qp.PauliZ}[name](w))


def g_cnot(c, t):
    return (f"CNOT({c},{t})", lambda: qp.CNOT([c, t]))


def convert(ops, wires, variant):
    tape = qp.tape.QuantumScript(ops, [qp.sample(wires=wires)], shots=1)
    if variant == "diag":
        (out,), _ = convert_to_mbqc_formalism(tape, diagonalize_mcms=True)
    else:
        (out,), _ = convert_to_mbqc_formalism(tape)
        if variant == "dmcm":
            (out,), _ = diagonalize_mcms(out)
    return out


def strip_corrections(tape):
    """the pattern that is executed when the byproducts are tracked offline: the converted tape without its online
    byproduct corrections (conditional X / Z) and without the Pauli gates of the circuit - _get_xz_record merges the
    Pauli gates of the tape into the recorded frame ("commutate step is skipped"), i.e. they are tracked, not executed"""
    ops = [op for op in tape.operations
           if not (isinstance(op, Conditional) and op.base.name in ("PauliX", "PauliZ"))
           and op.name not in ("PauliX", "PauliY", "PauliZ")]
    return tape.copy(operations=ops)


def conversion_plan(tier, rng):
    """-> list of (gate makers, wires, variant, lazy, npaths)  npaths = 0: every branch"""
    q = tier == "quick"
    plan = []
    ang = [1, 3, 2, 5, 7, 4, 6]
    singles = [g_h(), g_s(), g_rz(1), g_rz(3), g_xzx(1, 2, 3), g_xzx(3, 1, 5), g_xzx(0, 3, 0)]
    if not q:
        singles += [g_rz(2), g_rz(4), g_rz(7), g_xzx(2, 2, 2), g_xzx(5, 0, 1), g_xzx(7, 6, 1), g_xzx(4, 4, 4), g_xzx(1, 0, 0)]
    for g in singles:
        for variant in ("plain", "diag", "dmcm"):
            plan.append(([g], [0], variant, True, 0))
        plan.append(([g], [0], "plain", False, 0))
    # Pauli gates stay physical: prefixes give the inputs |1>, suffixes act on the corrected output
    for pre, g, post in ((g_p("X"), g_h(), None), (g_p("X"), g_xzx(2, 1, 3), g_p("Z")), (g_p("Y"), g_s(), g_p("X")),
                         (None, g_rz(5), g_p("Y"))):
        plan.append(([x for x in (pre, g, post) if x], [0], rng.choice(["plain", "diag", "dmcm"]), True, 0))
    # two gates: the first gate prepares a generic input state for the second (256 branches each)
    pool = [g_h, g_s, lambda: g_rz(rng.choice(ang)), lambda: g_xzx(rng.choice(ang), rng.choice(ang), rng.choice(ang))]
    # a generic XZX rotation first, so that every correction of the second gate matters (an X correction is invisible on |+>)
    #   every second gate x every conversion variant
    for k, g2 in enumerate([g_h(), g_s(), g_rz(rng.choice(ang)), g_xzx(rng.choice(ang), rng.choice(ang), rng.choice(ang))]):
        for variant in ("plain", "diag", "dmcm"):
            plan.append(([g_xzx(1, 2, 3) if k % 2 == 0 else g_xzx(3, 1, 2), g2], [0], variant, True, 0))
    pairs = list(itertools.product(range(4), repeat=2))
    rng.shuffle(pairs)
    for (i, j) in pairs[:2 if q else 16]:
        plan.append(([pool[i](), pool[j]()], [0], rng.choice(["plain", "diag", "dmcm"]), True, 0))
    # three gates: sampled histories (4096 branches)
    for _ in range(3 if q else 12):
        plan.append(([pool[rng.randrange(4)]() for _ in range(3)], [0], rng.choice(["plain", "diag", "dmcm"]), True, 6 if q else 40))
    # the 15-qubit CNOT pattern (13 measurements, 8192 branches)
    for k, pre in enumerate(([], [g_p("X", 0)], [g_p("X", 1)], [g_p("X", 0), g_p("Y", 1)])):
        exhaustive = (not q) and k == 3       # all 8192 branches (~0.6M TLC states)
        plan.append((pre + [g_cnot(0, 1)], [0, 1], "plain" if k % 2 == 0 else "diag", True, 0 if exhaustive else (10 if q else 60)))
    two = [[g_h(0), g_cnot(0, 1)],
           [g_h(1), g_cnot(0, 1), g_s(0)],
           [g_xzx(1, 2, 3, 0), g_rz(3, 1), g_cnot(1, 0), g_h(1)],
           [g_h(0), g_s(0), g_h(1), g_cnot(0, 1), g_cnot(1, 0)],
           [g_xzx(3, 1, 2, 1), g_cnot(0, 1), g_p("Z", 0), g_h(0)],
           [g_xzx(1, 2, 3, 0), g_xzx(3, 1, 2, 1), g_cnot(0, 1)],
           [g_xzx(2, 3, 1, 0), g_xzx(1, 1, 2, 1), g_cnot(1, 0)]]
    for c in two:
        plan.append((c, [0, 1], rng.choice(["plain", "diag", "dmcm"]), True, 5 if q else 40))
    return plan


def build_case(gates, wires, variant, lazy, rel_="state"):
    ops = [mk() for _, mk in gates]
    out = convert(ops, wires, variant)
    outs = list(out.measurements[0].wires)
    enc = mbqc.encode(out, M, outs, lazy=lazy)
    return {"n": enc["n"], "ops": enc["ops"], "outs": enc["outs"], "ref": mbqc.ref_records(ops, wires, M), "rel": rel_,
            "path": []}, enc["nmeas"], ops, out


def run_conversion(tier, rng, viol, cov):
    plan = conversion_plan(tier, rng)
    cases, meta = [], []
    n_conv = 0
    for gates, wires, variant, lazy, npaths in plan:
        name = "+".join(g for g, _ in gates)
        try:
            base, nmeas, ops, out = build_case(gates, wires, variant, lazy)
            n_conv += 1
        except mbqc.NotEncodable as e:
            raise lib.MachineryError(f"cannot encode the converted tape of {name} ({variant}): {e}")
        except Exception as e:  # noqa: BLE001 - the conversion must accept every circuit over its gate set
            viol.append(Violation(key=f"convert_to_mbqc_formalism:{variant}:raises:{type(e).__name__}",
                                  detail=f"{name} ({variant}): {type(e).__name__}: {e}", replay={"circuit": name, "variant": variant}))
            continue
        if npaths == 0:
            cases.append(base)
            meta.append({"circuit": name, "variant": variant, "lazy": lazy, "expect": 1 << nmeas, "kind": "all-branches", "nmeas": nmeas})
        else:
            for _ in range(npaths):
                path = [rng.randint(0, 1) for _ in range(nmeas)]
                cases.append(dict(base, path=path))
                meta.append({"circuit": name, "variant": variant, "lazy": lazy, "expect": 1, "kind": "history", "nmeas": nmeas,
                             "path": path})
    # ---- (D) offline corrections: strip the online corrections, follow histories, apply the X corrections of the code
    off = [[g_xzx(1, 1, 0), g_h(), g_s()], [g_xzx(3, 2, 0), g_s(), g_h()], [g_h(), g_s(), g_h(), g_s(), g_h(), g_p("X")],
           [g_xzx(1, 1, 2), g_p("Z"), g_h()], [g_rz(1), g_h(), g_s(), g_h()]]
    off2 = [[g_xzx(1, 1, 0, 0), g_h(1), g_cnot(0, 1), g_h(0)], [g_xzx(2, 1, 3, 1), g_cnot(0, 1), g_s(1), g_cnot(1, 0)]]
    n_off = n_off_sensitive = 0
    for gates, wires, npaths in [(c, [0], 8 if tier == "quick" else 60) for c in off] + \
                                [(c, [0, 1], 4 if tier == "quick" else 30) for c in off2] + \
                                [([g], [0], -1) for g in (g_h(), g_s(), g_xzx(1, 3, 2))]:
        name = "+".join(g for g, _ in gates)
        ops = [mk() for _, mk in gates]
        try:
            out = strip_corrections(convert(ops, wires, "plain"))
            outs = list(out.measurements[0].wires)
            enc = mbqc.encode(out, M, outs, lazy=True)
        except Exception as e:  # noqa: BLE001
            raise lib.MachineryError(f"offline family: cannot build {name}: {type(e).__name__}: {e}")
        ref = mbqc.ref_records(ops, wires, M)
        psi = bridge.circuit_unitary(ref, len(wires), M)[:, 0]
        pr = np.abs(psi) ** 2
        sensitive = bool(np.max(pr) - np.min(pr) > 0.05)
        tape = qp.tape.QuantumScript(ops, [qp.sample(wires=wires)], shots=1)
        nm = enc["nmeas"]
        paths = ([list(p) for p in itertools.product([0, 1], repeat=nm)] if npaths < 0
                 else [[rng.randint(0, 1) for _ in range(nm)] for _ in range(npaths)])
        for path in paths:
            try:
                corr = get_byproduct_corrections(tape, list(path), [0] * len(wires))
                xs = [int(v) for v in np.asarray(corr).ravel()]
            except Exception as e:  # noqa: BLE001
                viol.append(Violation(key=f"get_byproduct_corrections:raises:{type(e).__name__}",
                                      detail=f"{name}: {type(e).__name__}: {e}", replay={"circuit": name, "path": path}))
                continue
            fix = [rec("PauliX", [p]) for p, x in zip(enc["outs"], xs) if x]
            cases.append({"n": enc["n"], "ops": enc["ops"] + fix, "outs": enc["outs"], "ref": ref, "rel": "probs", "path": list(path)})
            meta.append({"circuit": name, "variant": "offline", "lazy": True, "expect": 1, "kind": "offline", "nmeas": nm,
                         "path": list(path), "x": xs, "sensitive": sensitive})
            n_off += 1
            n_off_sensitive += sensitive
    nreal = len(cases)
    # ---- negative controls: (a) drop the last conditional correction, (b) a wrong reference circuit,
    #      (c) offline: flip the X correction
    neg = []
    for k in range(nreal):
        m = meta[k]
        if m["kind"] == "all-branches" and len(neg) < 6 and m["circuit"].startswith(("RotXZX(1,2,3)", "RotXZX(3,1,5)")):
            c = cases[k]
            idx = [i for i, ins in enumerate(c["ops"]) if ins.get("g") == "COND" and ins["op"]["g"] in ("PauliX", "PauliZ")]
            if idx:
                neg.append((len(cases), "some", k))
                cases.append(dict(c, ops=c["ops"][:idx[-1]] + c["ops"][idx[-1] + 1:]))
                neg.append((len(cases), "all", k))
                cases.append(dict(c, ref=c["ref"] + [rec("RX", [1], [1])]))
        if m["kind"] == "offline" and m["sensitive"] and sum(1 for _, t, _s in neg if t == "off") < 4:
            c = cases[k]
            neg.append((len(cases), "off", k))
            cases.append(dict(c, ops=c["ops"] + [rec("PauliX", [c["outs"][0]])]))
    wd = lib.workdir("C74", "mbqc")
    (wd / "cases.json").write_text(json.dumps(cases))
    r = lib.run_tlc("Trace_Mbqc", lib.cfg(constants={"M": M, "NCASES": len(cases)}), wd,
                    env={"TRACE_FILE": str(wd / "cases.json")}, timeout=3400)
    lib.require_ok(r, "Trace_Mbqc")
    leaves = {}
    for t in r.tuples:
        if t[0] == "L":
            leaves.setdefault(t[1] - 1, []).append(t[2])
    n_leaves = n_branch_ok = 0
    samples = []
    per_variant = {}
    for k in range(nreal):
        m = meta[k]
        ls = leaves.get(k, [])
        if any(c in ("overflow",) for c in ls):
            raise lib.MachineryError(f"ring overflow in Trace_Mbqc on {m}")
        if len(ls) != m["expect"]:
            # fewer leaves than outcomes: some outcome had weight zero although every MBQC measurement is unbiased
            viol.append(Violation(key=f"mbqc:{m['variant']}:{m['circuit']}:branch-count",
                                  detail=f"{m['circuit']} ({m['variant']}): {len(ls)} outcome branches, expected {m['expect']}",
                                  replay={"case": cases[k], "meta": m}))
        n_leaves += len(ls)
        badl = [c for c in ls if c != "ok"]
        n_branch_ok += len(ls) - len(badl)
        per_variant[m["variant"]] = per_variant.get(m["variant"], 0) + len(ls)
        if badl:
            what = "get_byproduct_corrections" if m["kind"] == "offline" else "convert_to_mbqc_formalism"
            viol.append(Violation(key=f"{what}:{m['variant']}:{m['circuit']}:{badl[0]}",
                                  detail=f"{m['circuit']} ({m['variant']}, {m['kind']}{' path=' + str(m.get('path')) if m.get('path') else ''}"
                                         f"{' x=' + str(m.get('x')) if 'x' in m else ''}): {len(badl)} of {len(ls)} outcome branches do not carry "
                                         f"the logical state of the original circuit ({badl[0]})",
                                  replay={"case": cases[k], "meta": m}))
        elif (m["kind"], m["nmeas"]) not in {(s_["kind"], s_["measurements"]) for s_ in samples} and len(samples) < 5:
            samples.append({"circuit": m["circuit"], "variant": m["variant"], "kind": m["kind"], "measurements": m["nmeas"],
                            "register_wires": cases[k]["n"], "instructions": len(cases[k]["ops"]), "branches_ok": len(ls)})
    nneg = 0
    for idx, kind, src in neg:
        if any(c != "ok" for c in leaves.get(src, ["missing"])):
            continue        # derived from a case that is itself rejected: corrupting a wrong record proves nothing
        ls = leaves.get(idx, [])
        rej = [c for c in ls if c != "ok"]
        if not rej or (kind == "all" and len(rej) != len(ls)):
            raise lib.MachineryError(f"conversion negative control ({kind}) accepted: {len(rej)} of {len(ls)} leaves rejected")
        nneg += 1
    if nneg == 0 and not viol:
        raise lib.MachineryError("no conversion negative control")
    if n_off_sensitive == 0:
        raise lib.MachineryError("offline family is vacuous: no biased output distribution")
    cov["conversion"] = {"converted_tapes": n_conv, "cases": nreal, "outcome_branches_decided": n_leaves, "branches_ok": n_branch_ok,
                         "branches_by_variant": per_variant, "offline_histories": n_off, "offline_sensitive": n_off_sensitive,
                         "negative_controls_rejected": nneg,
                         "max_register": max(c["n"] for c in cases), "exhaustive_cases": sum(1 for m in meta if m["kind"] == "all-branches")}
    cov.setdefault("samples", []).extend(samples)
    return r.distinct, r.generated, nreal, n_leaves


# ================================================================================================ (C) gate set
def _float_records(ops, wpos):
    out = []
    for op in ops:
        nm = op.name
        if nm in ("GlobalPhase", "Identity"):
            continue
        w = [wpos[x] for x in op.wires]
        if nm == "RotXZX":
            phi, theta, omega = [float(x) for x in op.data]
            out += [dict(rec("RX", w), fp=[phi]), dict(rec("RZ", w), fp=[theta]), dict(rec("RX", w), fp=[omega])]
        elif nm == "RZ":
            out.append(dict(rec("RZ", w), fp=[float(op.data[0])]))
        elif nm in ("CNOT", "Hadamard", "S", "PauliX", "PauliY", "PauliZ"):
            out.append(rec(nm, w))
        else:
            return None, nm
    return out, None


def run_gateset(tier, rng, viol, cov):
    from ..rel import instances, random_circuit
    alpha = [("RX", 1), ("RY", 1), ("RZ", 1), ("PhaseShift", 1), ("Rot", 3), ("T", 0), ("S", 0), ("SX", 0), ("Hadamard", 0),
             ("PauliX", 0), ("PauliY", 0), ("PauliZ", 0), ("CNOT", 0), ("CZ", 0), ("CY", 0), ("SWAP", 0), ("CRZ", 1), ("CRX", 1),
             ("ControlledPhaseShift", 1), ("IsingZZ", 1), ("IsingXX", 1), ("Toffoli", 0), ("CH", 0), ("ISWAP", 0)]
    from ..codec import decode_gate
    inst = {n: instances(alpha, n, list(range(0, 16, 1)) if n < 3 else [1, 3, 6]) for n in (1, 2, 3)}
    circs = []
    for name, npar in alpha:            # every alphabet gate alone
        from ..codec import ARITY
        n = max(ARITY[name], 1)
        circs.append((n, [rec(name, list(range(1, n + 1)), [rng.choice([1, 3, 5, 6])] * npar)]))
    for _ in range(25 if tier == "quick" else 400):
        n = rng.choice([1, 2, 2, 3])
        circs.append((n, random_circuit(rng, inst[n], rng.randint(2, 5))))
    qp.decomposition.enable_graph()
    cases, outs = [], []
    try:
        for n, circ in circs:
            ops = [decode_gate(g, M) for g in circ]
            tape = qp.tape.QuantumScript(ops, [qp.sample(wires=list(range(n)))], shots=1)
            try:
                (o,), _ = convert_to_mbqc_gateset(tape)
            except Exception as e:  # noqa: BLE001
                viol.append(Violation(key=f"convert_to_mbqc_gateset:raises:{type(e).__name__}",
                                      detail=f"{[g['g'] for g in circ]}: {type(e).__name__}: {e}", replay={"n": n, "circuit": circ}))
                continue
            flt, badname = _float_records(o.operations, wire_positions(list(range(n))))
            if flt is None:
                viol.append(Violation(key=f"convert_to_mbqc_gateset:outside-gate-set:{badname}",
                                      detail=f"{[g['g'] for g in circ]} -> output contains {badname}", replay={"n": n, "circuit": circ}))
                continue
            cases.append({"n": n, "a": [dict(g) for g in circ], "bs": [{"b": [], "rel": "emit", "perm": []}]})
            outs.append((n, circ, flt))
    finally:
        qp.decomposition.disable_graph()
    verd, emitted, stats = rel.validate("C74", cases, M, name="gateset")
    nbad = 0
    for k, (n, circ, flt) in enumerate(outs):
        Uin = lib.ring_matrix_to_numpy(emitted[k], M)
        Uout = bridge.circuit_unitary(flt, n, M)
        if not bridge.equal_up_to_phase(Uout, Uin, tol=1e-6):
            nbad += 1
            viol.append(Violation(key=f"convert_to_mbqc_gateset:not-equal-up-to-phase:{'+'.join(sorted({g['g'] for g in circ}))}",
                                  detail=f"convert_to_mbqc_gateset changed the unitary of {circ}", replay={"n": n, "circuit": circ}))
    # negative control of the comparator: an extra T on the output must be rejected
    n, circ, flt = outs[0]
    if bridge.equal_up_to_phase(bridge.circuit_unitary(flt + [rec("T", [1])], n, M), lib.ring_matrix_to_numpy(emitted[0], M), tol=1e-6):
        raise lib.MachineryError("gate-set negative control accepted")
    cov["gateset"] = {"circuits": len(outs), "mismatches": nbad, "alphabet": len(alpha), "negative_controls_rejected": 1}
    return stats["distinct"], stats["generated"], len(outs)


def run(tier, seed):
    rng = random.Random(7400 + seed)
    viol, cov = [], {}
    s1, t1, n1, steps = run_frames(tier, rng, viol, cov)
    s2, t2, n2, leaves = run_conversion(tier, rng, viol, cov)
    s3, t3, n3 = run_gateset(tier, rng, viol, cov)
    cov.update({"states": s1 + s2 + s3, "transitions": t1 + t2 + t3,
                "traces_validated_against_impl": n1 + n2 + n3, "evaluations": steps + leaves + n3,
                "distinct_nontrivial": cov["conversion"]["outcome_branches_decided"],
                "rule": "non-trivial = measurement-outcome branches of converted tapes whose leaf state was decided exactly by TLC "
                        "(every branch needs its own byproduct correction); plus exhaustive gate x frame conjugations",
                "exhaustive": False, "ring_level_M": M})
    return CheckResult(coverage=cov, violations=viol,
                       assumptions=["angles on the lattice k*pi/4; circuits of 1-3 single-qubit gates (all branches up to 2 gates) and "
                                    "2-wire circuits with the CNOT pattern (sampled histories in quick, all 8192 branches in thorough)",
                                    "rotated-basis measurements encoded from the documented basis states (plane XY; reset=True)",
                                    "operations on disjoint wires are re-ordered (lazy schedule) and reset wires recycled by the encoder; "
                                    "the unscheduled order is checked as well for single gates",
                                    "convert_to_mbqc_gateset outputs compared numerically (1e-6) with TLC's exact input unitary"])
