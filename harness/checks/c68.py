"""C68 Kernel utilities return valid kernel matrices (partial).

REPLAY: spec/sys/KernelCalls.tla enumerates, for an integer valued synthetic kernel function on integer data points,
  * kernel_matrix cases (all data sets of sizes 1..3 x 1..3 over 2 (thorough: 3) point values, 4 kernel families incl. an asymmetric one),
  * square_kernel_matrix cases (all data sets of <= 4 points, both values of assume_normalized_kernel), modelled as one
    action per kernel call (upper triangle, mirrored; diagonal evaluated or set to 1 without a call); TLC checks on the
    model that for symmetric kernels the matrix built by the calls IS the entrywise matrix, is symmetric, has a unit
    diagonal for normalised kernels / under the option, and that no pair is evaluated twice,
  * polarity / target_alignment cases (all label vectors in {-1,1}^N, rescale_class_labels on/off) as exact integers
    s, L, kk, tt with P = s/L^2 and TA^2 = s^2/(kk*tt) (TLC checks Cauchy-Schwarz),
  * post-processing cases K = W diag(ev) W^T / s with integer orthogonal-column W and all integer spectra in -2..2:
    the documented outputs of threshold / flip / displace as exact rationals (TLC checks the eigen-equation),
and emits every case with its expected call log and values.  The driver runs pennylane.kernels on every case with a
recording kernel and compares: matrices exactly (integers), polarity at 1e-9, alignment by sign and square, processed
matrices at 1e-9.  The recorded call log is compared with the model's log: differences are mechanism drift (counted).
Bridged (harness only): eigenvalues >= -1e-10 of every processed matrix, fixed point on PSD inputs, projection certificate
(KKT) and sampled Frobenius optimality of threshold_matrix / closest_psd_matrix on seeded random indefinite matrices,
closest_psd_matrix(fix_diagonal=True) through cvxpy, and a real (AngleEmbedding) normalised quantum kernel."""
import math
import random

import numpy as np

import pennylane as qp

from .. import lib
from ..lib import CheckResult, MachineryError, Violation

TOL = 1e-9
FAMS = {"prod": lambda x, y: x * y + 1,
        "dist": lambda x, y: 3 - abs(x - y),
        "norm": lambda x, y: 1 if x == y else ((x + y) % 3) - 1,
        "asym": lambda x, y: 3 * x - y + 1}


class Rec:
    """Synthetic kernel over points (index, value): records the index pair of every call, returns the integer value."""

    def __init__(self, fam, ret):
        self.f, self.ret, self.calls = FAMS[fam], ret, []

    def __call__(self, x, y):
        xi, xv, yi, yv = int(x[0]), int(x[1]), int(y[0]), int(y[1])
        self.calls.append([xi, yi])
        v = self.f(xv, yv)
        return {"int": int, "float": float, "np": np.float64, "arr": lambda t: np.array(float(t))}[self.ret](v)


def dataset(vals, container):
    pts = [[i + 1, int(v)] for i, v in enumerate(vals)]
    if container == "list":
        return pts
    if container == "autograd":
        return qp.numpy.array(pts, requires_grad=False)
    return np.array(pts)


def tonp(x):
    if hasattr(x, "detach"):
        x = x.detach().numpy()
    return np.asarray(x, dtype=float)


def run_tlc(tier, name, invariants, constants):
    wd = lib.workdir("C68", name)
    return lib.run_tlc("KernelCalls", lib.cfg(constants=constants, invariants=invariants), wd, timeout=3000)


def psd_bridge(rng, tier, add, stats):
    """Seeded random indefinite symmetric matrices: the statement's 'return positive semidefinite matrices' and the
    documented closest-in-Frobenius-norm property, checked numerically on the outputs."""
    nr = np.random.default_rng(rng.randrange(1 << 30))
    K = qp.kernels
    nmat = 60 if tier == "quick" else 600
    for it in range(nmat):
        d = 2 + it % 5
        a = nr.normal(size=(d, d))
        m = (a + a.T) / 2
        if it % 7 == 0:                       # exactly rank deficient / PSD inputs
            b = nr.normal(size=(d, max(1, d - 2)))
            m = b @ b.T
        w_in = np.linalg.eigvalsh(m)
        rep = {"matrix": m.tolist(), "seeded_random": True, "iteration": it}
        outs = {}
        for fn in ("threshold_matrix", "displace_matrix", "flip_matrix", "closest_psd_matrix"):
            stats["evals"] += 1
            try:
                outs[fn] = np.asarray(getattr(K, fn)(m.copy()), dtype=float)
            except Exception as e:  # noqa: BLE001
                add(f"{fn}:random:exception:{type(e).__name__}", f"{fn} raised {type(e).__name__}: {e}", rep)
                continue
            o = outs[fn]
            w = np.linalg.eigvalsh((o + o.T) / 2)
            stats["bridged"] += 1
            if w[0] < -1e-10 or not np.allclose(o, o.T, atol=1e-10):
                add(f"{fn}:random:not-psd", f"{fn} output has eigenvalue {w[0]:.3g} / is not symmetric (d={d})", rep)
            if w_in[0] >= 0 and not np.allclose(o, m, atol=1e-12):
                add(f"{fn}:random:psd-input-changed", f"{fn} changed an input that is already PSD", rep)
            if w_in[0] < -1e-6:
                stats["indefinite_inputs"] += 1
        if w_in[0] >= -1e-6 or len(outs) < 4:
            continue
        t = outs["threshold_matrix"]
        for fn in ("threshold_matrix", "closest_psd_matrix"):
            o = outs[fn]
            dlt = o - m
            wd = np.linalg.eigvalsh((dlt + dlt.T) / 2)
            stats["bridged"] += 2
            # projection onto the PSD cone: o >= 0, o - K >= 0, <o - K, o> = 0  (necessary and sufficient)
            if wd[0] < -1e-9 or abs(np.sum(dlt * o)) > 1e-9:
                add(f"{fn}:random:not-closest", f"{fn} output violates the projection conditions (min eig of out-K {wd[0]:.3g}, <out-K,out> {np.sum(dlt * o):.3g})", rep)
            dist = np.linalg.norm(o - m)
            for _ in range(20):
                b = nr.normal(size=(d, d))
                p = o + 0.1 * nr.random() * (b @ b.T) if nr.random() < 0.5 else b @ b.T * nr.random()
                if np.linalg.norm(p - m) < dist - 1e-9:
                    add(f"{fn}:random:not-closest", f"a sampled PSD matrix is closer to K than the {fn} output", rep)
        f = outs["flip_matrix"]
        stats["bridged"] += 2
        if not np.allclose(np.sort(np.linalg.eigvalsh(f)), np.sort(np.abs(w_in)), atol=1e-9) or not np.allclose(f @ m, m @ f, atol=1e-9):
            add("flip_matrix:random:spectrum", "flip_matrix output does not have spectrum |w| on the eigenvectors of K", rep)
        dsp = outs["displace_matrix"]
        if not np.allclose(dsp - m, -w_in[0] * np.eye(d), atol=1e-9):
            add("displace_matrix:random:shift", "displace_matrix output is not K + |w_min| 1", rep)
    # SDP variant (cvxpy): unit diagonal, PSD within solver accuracy, not worse than the rescaled threshold candidate
    nsdp = 0
    for it in range(4 if tier == "quick" else 25):
        d = 2 + it % 3
        a = nr.uniform(-1, 1, size=(d, d))
        m = (a + a.T) / 2
        np.fill_diagonal(m, 1.0)
        m[0, 1] = m[1, 0] = 1.3                         # certainly indefinite
        rep = {"matrix": m.tolist(), "fix_diagonal": True}
        stats["evals"] += 1
        try:
            o = np.asarray(K.closest_psd_matrix(m.copy(), fix_diagonal=True), dtype=float)
        except ImportError:
            break
        except Exception as e:  # noqa: BLE001
            add(f"closest_psd_matrix:fix_diagonal:exception:{type(e).__name__}", f"{type(e).__name__}: {e}", rep)
            continue
        nsdp += 1
        w = np.linalg.eigvalsh((o + o.T) / 2)
        t = np.asarray(K.threshold_matrix(m.copy()))
        s = 1 / np.sqrt(np.diag(t))
        cand = t * np.outer(s, s)
        stats["bridged"] += 3
        if w[0] < -1e-5 or not np.allclose(np.diag(o), 1.0, atol=1e-5):
            add("closest_psd_matrix:fix_diagonal:not-psd-unit", f"SDP output has min eigenvalue {w[0]:.3g}, diagonal {np.diag(o)}", rep)
        if np.linalg.norm(o - m) > np.linalg.norm(cand - m) + 1e-4:
            add("closest_psd_matrix:fix_diagonal:not-closest", "SDP output is farther from K than the rescaled threshold matrix", rep)
    stats["sdp_cases"] = nsdp


def quantum_kernel_bridge(add, stats):
    """A real normalised embedding kernel: k(x, y) = |<0|U(y)^+ U(x)|0>|^2 with AngleEmbedding = PROD cos^2((x_i - y_i)/2)."""
    dev = qp.device("default.qubit", wires=2)

    @qp.qnode(dev)
    def circuit(x1, x2):
        qp.AngleEmbedding(x1, wires=[0, 1])
        qp.adjoint(qp.AngleEmbedding)(x2, wires=[0, 1])
        return qp.probs(wires=[0, 1])

    def kernel(x1, x2):
        return circuit(x1, x2)[0]
    X = np.array([[0.1, 0.7], [1.3, -0.4], [2.2, 0.5]])
    exp = np.array([[np.prod(np.cos((a - b) / 2) ** 2) for b in X] for a in X])
    for an in (False, True):
        stats["evals"] += 1
        got = np.asarray(qp.kernels.square_kernel_matrix(X, kernel, assume_normalized_kernel=an), dtype=float)
        stats["bridged"] += 1
        if got.shape != (3, 3) or not np.allclose(got, exp, atol=1e-8) or not np.allclose(got, got.T, atol=1e-12) or not np.allclose(np.diag(got), 1, atol=1e-8):
            add(f"square_kernel_matrix:embedding-kernel:an{int(an)}", "matrix of a normalised embedding kernel is not the symmetric unit-diagonal matrix of kernel values",
                {"X": X.tolist(), "got": got.tolist(), "expected": exp.tolist()})
    X2 = np.array([[0.3, 0.3], [-1.0, 2.0]])
    exp2 = np.array([[np.prod(np.cos((a - b) / 2) ** 2) for b in X2] for a in X])
    stats["evals"] += 1
    got = np.asarray(qp.kernels.kernel_matrix(X, X2, kernel), dtype=float)
    if got.shape != (3, 2) or not np.allclose(got, exp2, atol=1e-8):
        add("kernel_matrix:embedding-kernel", "kernel_matrix of an embedding kernel differs from the kernel values", {"got": got.tolist(), "expected": exp2.tolist()})


def run(tier, seed):
    quick = tier == "quick"
    rng = random.Random(6800 + seed)
    consts = {"MaxN": 4, "Vals": "{0, 1, 2}", "BigVals": "{0, 2}" if quick else "{0, 1, 2}", "ERange": 2 if quick else 3,
              "MaxKM": 3, "KMVals": "{0, 2}" if quick else "{0, 1, 2}"}
    r = run_tlc(tier, "gen", ["SquareOK", "CrossOK", "AlignOK", "PsdOK"], consts)
    if r.invariant_violated:
        raise MachineryError(f"KernelCalls model invariant {r.invariant_violated} violated: " + r.out[-1500:])
    lib.require_ok(r, "KernelCalls")
    cases = r.json_lines
    viol = {}

    def add(key, detail, replay=None):
        if key not in viol:
            viol[key] = Violation(key=key, detail=detail, replay=replay)
    stats = {"evals": 0, "bridged": 0, "indefinite_inputs": 0}
    kinds = {"sq": 0, "km": 0, "al": 0, "psd": 0}
    drift = {"sq_calls": 0, "km_calls": 0, "sq_asym_matrix": 0}
    nontriv = set()
    samples = []
    rets = ["int", "float", "np", "arr"]
    conts = ["numpy", "list", "autograd"]
    K = qp.kernels
    for idx, j in enumerate(cases):
        kind = j["kind"]
        kinds[kind] += 1
        c = j["c"]
        ret, cont = rets[idx % 4], conts[idx % 3]
        try:
            if kind == "sq":
                k = Rec(c["fam"], ret)
                X = dataset(c["X"], cont)
                got = tonp(K.square_kernel_matrix(X, k, assume_normalized_kernel=c["an"]))
                stats["evals"] += 1
                exp = np.array(j["mat"], dtype=float)
                rep = {"case": c, "return_type": ret, "container": cont, "expected": j["mat"], "got": got.tolist()}
                same = got.shape == exp.shape and np.array_equal(got, exp)
                if j["sym"]:
                    if not same:
                        add(f"square_kernel_matrix:entries:{c['fam']}:N{c['N']}:an{int(c['an'])}",
                            "square_kernel_matrix differs from the entrywise kernel matrix of a symmetric kernel", rep)
                    else:
                        if not np.array_equal(got, got.T):
                            add(f"square_kernel_matrix:symmetry:{c['fam']}", "matrix of a symmetric kernel is not symmetric", rep)
                        if j["unit"] and not np.all(np.diag(got) == 1):
                            add(f"square_kernel_matrix:unit-diagonal:{c['fam']}", "diagonal is not 1 for a normalised kernel", rep)
                        if c["N"] >= 2 and len(set(c["X"])) >= 2:
                            nontriv.add(("sq", c["fam"], tuple(c["X"]), c["an"]))
                elif not same:
                    drift["sq_asym_matrix"] += 1
                if k.calls != j["log"]:
                    drift["sq_calls"] += 1
                if len(samples) < 2 and c["N"] == 3 and c["fam"] == "dist" and len(set(c["X"])) == 3:
                    samples.append({"square": c, "expected_calls": j["log"], "expected_matrix": j["mat"]})
            elif kind == "km":
                k = Rec(c["fam"], ret)
                got = tonp(K.kernel_matrix(dataset(c["X"], cont), dataset(c["X2"], conts[(idx + 1) % 3]), k))
                stats["evals"] += 1
                exp = np.array(j["mat"], dtype=float)
                if got.shape != exp.shape or not np.array_equal(got, exp):
                    add(f"kernel_matrix:entries:{c['fam']}:{c['N']}x{c['N2']}", "kernel_matrix differs from the entrywise kernel values",
                        {"case": c, "return_type": ret, "expected": j["mat"], "got": got.tolist()})
                elif c["N"] != c["N2"] or c["fam"] == "asym":
                    nontriv.add(("km", c["fam"], tuple(c["X"]), tuple(c["X2"])))
                if k.calls != j["log"]:
                    drift["km_calls"] += 1
            elif kind == "al":
                a = j["al"]
                X = dataset(c["X"], cont)
                pol = a["s"] / (a["L"] ** 2)
                rep = {"case": c, "expected": a, "return_type": ret}
                k = Rec(c["fam"], ret)
                gp = float(K.polarity(X, c["Y"], k, assume_normalized_kernel=c["an"], rescale_class_labels=c["rs"]))
                gt = float(K.target_alignment(X, np.array(c["Y"]), Rec(c["fam"], ret), assume_normalized_kernel=c["an"], rescale_class_labels=c["rs"]))
                gn = float(K.polarity(X, c["Y"], Rec(c["fam"], ret), assume_normalized_kernel=c["an"], rescale_class_labels=c["rs"], normalize=True))
                stats["evals"] += 3
                tag = f"{c['fam']}:N{c['N']}:an{int(c['an'])}:rs{int(c['rs'])}"
                if not abs(gp - pol) <= TOL * max(1, abs(pol)):
                    add(f"polarity:{tag}", f"polarity {gp} != SUM y_i y_j k_ij = {pol}", {**rep, "got": gp})
                ta2 = a["s"] ** 2 / (a["kk"] * a["tt"])
                for nm, g in (("target_alignment", gt), ("polarity-normalized", gn)):
                    sgn_ok = (g > 0) == (a["s"] > 0) and (g < 0) == (a["s"] < 0) if abs(ta2) > 1e-12 else abs(g) < 1e-6
                    if not (sgn_ok and abs(g * g - ta2) <= TOL):
                        add(f"{nm}:{tag}", f"{nm} {g}: square {g * g} != s^2/(kk*tt) = {ta2} or wrong sign (s = {a['s']})", {**rep, "got": g})
                if a["s"] != 0 and len(set(c["Y"])) == 2:
                    nontriv.add(("al", c["fam"], tuple(c["X"]), tuple(c["Y"]), c["an"], c["rs"]))
                if len(samples) < 3 and c["N"] == 3 and c["rs"] and len(set(c["Y"])) == 2 and c["fam"] == "prod" and len(set(c["X"])) == 3:
                    samples.append({"alignment": c, "expected": {k_: a[k_] for k_ in ("s", "L", "kk", "tt")}})
            else:
                rr = j["r"]
                s = rr["s"]
                Km = np.array(rr["K"], dtype=float) / s
                rep = {"case": c, "K": Km.tolist()}
                for fn, key in (("threshold_matrix", "thr"), ("flip_matrix", "flip"), ("displace_matrix", "disp"), ("closest_psd_matrix", "thr")):
                    exp = np.array(rr[key], dtype=float) / s
                    got = np.asarray(getattr(K, fn)(Km.copy()), dtype=float)
                    stats["evals"] += 1
                    if got.shape != exp.shape or not np.allclose(got, exp, atol=TOL, rtol=0):
                        add(f"{fn}:exact:{c['base']}", f"{fn} differs from the documented result on K = W diag{tuple(c['ev'])} W^T/{s}",
                            {**rep, "expected": exp.tolist(), "got": got.tolist()})
                    w = np.linalg.eigvalsh((got + got.T) / 2) if got.shape == exp.shape else np.array([-1.0])
                    stats["bridged"] += 1
                    if w[0] < -1e-10:
                        add(f"{fn}:exact:not-psd:{c['base']}", f"{fn} output has eigenvalue {w[0]:.3g}", rep)
                    if rr["already"] and not (np.array_equal(got, Km) if min(c["ev"]) > 0 else np.allclose(got, Km, atol=1e-12, rtol=0)):
                        add(f"{fn}:exact:psd-input-changed:{c['base']}", f"{fn} changed a PSD input", rep)
                if min(c["ev"]) < 0:
                    nontriv.add(("psd", c["base"], tuple(c["ev"])))
                if len(samples) < 4 and c["base"] == "w3" and min(c["ev"]) < 0 < max(c["ev"]):
                    samples.append({"psd": c, "s": s, "K_num": rr["K"], "threshold_num": rr["thr"], "flip_num": rr["flip"]})
        except Exception as e:  # noqa: BLE001  an exception on a valid input is a violation
            add(f"{kind}:exception:{type(e).__name__}:{c.get('fam', c.get('base'))}", f"{type(e).__name__}: {e}", {"case": c})
    psd_bridge(rng, tier, add, stats)
    quantum_kernel_bridge(add, stats)
    # vacuity
    if min(kinds.values()) < 50 or stats["indefinite_inputs"] < 20:
        raise MachineryError(f"vacuity: {kinds} {stats}")
    if sum(1 for j in cases if j["kind"] == "sq" and j["c"]["an"] and j["c"]["N"] >= 2) < 20:
        raise MachineryError("vacuity: assume_normalized_kernel branch not exercised")
    # --- negative controls
    neg = 0
    # (1) TLC: the claim 'the built matrix is the entrywise matrix for EVERY kernel' must be refuted by the asymmetric probe kernel
    rb = run_tlc(tier, "neg", ["NegEntrywiseAlways"], {**consts, "MaxN": 2, "MaxKM": 1, "ERange": 0})
    if rb.invariant_violated != "NegEntrywiseAlways":
        raise MachineryError("negative control accepted: TLC did not refute a false invariant")
    neg += 1
    # (2) comparator: hand-written wrong expectations
    k = Rec("dist", "int")
    got = tonp(K.square_kernel_matrix(dataset([0, 2], "numpy"), k))
    if np.array_equal(got, np.array([[3.0, 2.0], [1.0, 3.0]])) or not np.array_equal(got, np.array([[3.0, 1.0], [1.0, 3.0]])):
        raise MachineryError("negative control: comparator accepted a wrong matrix")
    g = float(K.polarity(dataset([0, 2], "numpy"), [1, -1], Rec("dist", "int"), rescale_class_labels=False))
    if abs(g - 5.0) <= TOL or abs(g - 4.0) > TOL:          # 3 + 3 - 1 - 1 = 4
        raise MachineryError("negative control: comparator accepted a wrong polarity")
    neg += 2
    cov = {"states": r.distinct + rb.distinct, "transitions": r.generated + rb.generated,
           "traces_validated_against_impl": len(cases), "evaluations": stats["evals"],
           "distinct_nontrivial": len(nontriv),
           "rule": "distinct cases whose comparison passed and that are non-trivial: square matrices of >= 2 distinct points, kernel_matrix of "
                   "unequal sizes or of the asymmetric kernel, alignments with both classes and non-zero polarity, post-processing inputs "
                   "with a negative eigenvalue",
           "cases": kinds, "model_drift": drift, "bridged_checks": stats["bridged"], "random_indefinite_inputs": stats["indefinite_inputs"],
           "sdp_cases": stats.get("sdp_cases", 0), "samples": samples, "exhaustive": True,
           "exhaustive_scope": f"all data sets over point values {consts['Vals']} of sizes <= 4 (alignment with 4 points: values {consts['BigVals']}), all labels, "
                               f"both options; all integer spectra in -{consts['ERange']}..{consts['ERange']} on 4 orthogonal bases",
           "negative_controls_rejected": neg,
           "tlc": {"generated": r.generated, "distinct": r.distinct, "wall_s": round(r.wall_s, 1),
                   "invariants": ["SquareOK", "CrossOK", "AlignOK", "PsdOK"]}}
    return CheckResult(coverage=cov, violations=list(viol.values()),
                       assumptions=["partial: exact only for integer valued synthetic kernels and for post-processing inputs with a known integer "
                                    "eigen-decomposition; eigen-decomposition based post-processing of generic matrices and the SDP are "
                                    "checked numerically (bridged) on seeded random matrices",
                                    "which kernel calls are made is mechanism (drift), the returned matrix is the property",
                                    "target_alignment is the normalised Frobenius inner product <K,T>/(|K||T|), T = y y^T (the docstring's "
                                    "denominator sqrt(SUM y_i y_j) is read as |T|_F)",
                                    "mitigate_depolarizing_noise is not part of the statement and is not checked"])
