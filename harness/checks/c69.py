"""C69 Spin-model Hamiltonians match their textbook sums.

(M) spec/sys/SpinLattice.tla defines every lattice shape independently of pennylane.spin.lattice: integer coordinates with an exact
    quadratic form, sites numbered row-major, the k-th neighbour relation by brute force over all periodic images; and the documented
    Hamiltonian sums (transverse_ising, heisenberg, kitaev, spin_hamiltonian; fermi_hubbard, emery, haldane through the Jordan-Wigner /
    parity / Bravyi-Kitaev definitions of FermiMap.tla) as exact Pauli sentences.  spec/gen/SpinLatticeGen.tla makes TLC check the
    geometry tables against the textbook description of each shape (nearest-neighbour bond lists, coordination numbers z_1..z_3,
    distance ratios) and per-configuration laws (open lattice is a sub-lattice, exact coordination on periodic lattices).
(R) spec -> code: TLC enumerates EVERY configuration (shape, cells, open/periodic per axis, neighbour order) up to the bounds and emits
    the expected sites and edge classes; they are replayed into qp.spin.generate_lattice and compared as sets.
(T) code -> spec: seeded calls of the seven model functions (random shape, size, boundary, order, dyadic couplings as scalars, per-order
    lists and site matrices, the three fermionic mappings) and of generate_lattice on larger sizes are recorded exactly and
    spec/trace/Trace_SpinLattice.tla decides: same sites, same neighbour classes, operator = documented sum over the SPEC's neighbour
    pairs, all coefficients real (Hermitian).
"""
import json
import math
import random

import numpy as np

import pennylane as qp
from pennylane.spin import Lattice, generate_lattice

from .. import lib
from ..lib import CheckResult
from ..paulis import LET, Agg, dict_to_terms, ps_to_dict, sentence_diff, show_terms, terms_to_dict

PID = "C69"
M = 3
SHAPES = {"chain": 1, "square": 2, "rectangle": 2, "triangle": 2, "honeycomb": 2, "kagome": 2, "lieb": 2, "cubic": 3, "bcc": 3, "fcc": 3, "diamond": 3}
NSUB = {"chain": 1, "square": 1, "rectangle": 1, "triangle": 1, "honeycomb": 2, "kagome": 3, "lieb": 3, "cubic": 1, "bcc": 2, "fcc": 4, "diamond": 2}
POOL = [[1, 0, 0], [-1, 0, 0], [1, 0, 1], [1, 0, 2], [-3, 0, 2], [3, 0, 1], [2, 0, 0], [-1, 0, 3], [5, 0, 2], [-7, 0, 3], [3, 0, 0]]
MAPNAME = {"jw": "jordan_wigner", "par": "parity", "bk": "bravyi_kitaev"}
L2I = {"I": 0, "X": 1, "Y": 2, "Z": 3}


def num(c, rng=None):
    v = c[0] / (1 << c[2])
    return int(v) if (rng is not None and c[2] == 0 and rng.random() < 0.3) else v


def snap(z, bits=12):
    """float -> Gaussian dyadic with denominator <= 2^bits when within 1e-9 of one (used for e^{i phi} at multiples of pi/2)."""
    z = complex(z)
    s = 1 << bits
    re, im = round(z.real * s), round(z.imag * s)
    if abs(z.real * s - re) > 1e-9 * s or abs(z.imag * s - im) > 1e-9 * s:
        return None
    k = bits
    while k > 0 and re % 2 == 0 and im % 2 == 0:
        re, im, k = re // 2, im // 2, k - 1
    return [re, im, k]


def ham_terms(op, nq, rounded=False):
    """operator -> (terms, exact) on wires 0..nq-1; a wire outside gives a malformed record."""
    ps = qp.pauli.pauli_sentence(op)
    d = ps_to_dict(ps, list(range(nq)))
    if d is None:
        return [{"w": [9] * nq, "c": [0, 0, 0]}], True
    if not rounded:
        return dict_to_terms({w: c for w, c in d.items() if c != 0})
    terms, exact = [], True
    for w, c in sorted(d.items()):
        g = snap(c)
        if g is None:
            exact, g = False, [0, 0, 0]
        if g[0] or g[1]:
            terms.append({"w": list(w), "c": g})
    return terms, exact


def sym_matrix(rng, n, ints=False):
    m = [[[0, 0, 0] for _ in range(n)] for _ in range(n)]
    for i in range(n):
        for j in range(i, n):
            m[i][j] = m[j][i] = [rng.randint(0, 3), 0, 0] if ints else list(rng.choice(POOL))
    return m


def mat_num(m):
    return np.array([[num(c) for c in row] for row in m], dtype=float)


def empty_par():
    return {"J": [], "Jm": [], "h": [], "U": [], "V": [], "Vm": [], "T2": [], "T2m": [], "ph": [], "phm": [], "ce": [], "cn": []}


def impl_edges(sh, nc, bc, K):
    lat = generate_lattice(sh, nc, bc, K)
    return int(lat.n_sites), [[int(u), int(v), int(k)] for (u, v, k) in lat.edges]


def rand_config(rng, max_sites, kmax, shapes=None, min_sites=2):
    for _ in range(1000):
        sh = rng.choice(shapes or list(SHAPES))
        dim = SHAPES[sh]
        nc = [rng.randint(1, 4 if dim == 1 else 3) for _ in range(dim)] if dim < 3 else [rng.randint(1, 2) for _ in range(dim)]
        if dim == 1:
            nc = [rng.randint(2, 8)]
        ns = NSUB[sh] * math.prod(nc)
        if not min_sites <= ns <= max_sites:
            continue
        K = rng.randint(1, kmax)
        # a periodic axis shorter than 2K+1 cells makes images collide (mostly undecided inputs): keep only a few of those
        bc = [rng.random() < 0.5 and (nc[d] >= 2 * K + 1 or rng.random() < 0.2) for d in range(dim)]
        return sh, nc, bc, K
    raise lib.MachineryError("no configuration within the size bounds")


def bc_arg(rng, bc):
    return bc[0] if (all(b == bc[0] for b in bc) and rng.random() < 0.5) else list(bc)


# ------------------------------------------------------------------------------------------------ model drivers (TRACE)
def model_tag(r):
    """Stable violation-key tag of a record: the model, with the one-cell-wide honeycomb strips of kitaev marked."""
    if r["kind"] == "lattice":
        return "lattice"
    if r["model"] == "kitaev" and 1 in r["nc"]:
        return f"kitaev[n_cells[{r['nc'].index(1)}]=1]"
    return r["model"]


def call_model(rng, model, max_spin_sites, max_fermi_sites, kmax, fixed=None):
    """Run one model function on a random input (kitaev: on the given cells / boundary); returns (record, description)."""
    par = empty_par()
    mp = "jw"
    fermi = model in ("hubbard", "emery", "haldane")
    if model == "kitaev":
        sh, K = "honeycomb", 1
        nc, bc = list(fixed[0]), list(fixed[1])
        par["J"] = [list(rng.choice(POOL)) for _ in range(3)]
        op = qp.spin.kitaev(nc, coupling=np.array([num(c) for c in par["J"]]), boundary_condition=bc_arg(rng, bc))
        desc = f"kitaev({nc}, coupling={[num(c) for c in par['J']]}, boundary_condition={bc})"
    elif model == "custom":
        sh, nc, bc, K = rand_config(rng, max_spin_sites, 1, ["chain", "square", "triangle", "honeycomb", "kagome", "lieb"], 2)
        K = 1
        base = generate_lattice(sh, nc, bc, 1)
        ns = int(base.n_sites)
        ce, seen = [], set()
        for _ in range(rng.randint(1, 3)):
            u0, v0 = rng.sample(range(ns), 2)
            if (u0, v0) in seen:
                continue
            seen.add((u0, v0))
            ce.append([u0, v0, rng.randint(0 if rng.random() < 0.1 else 1, 3), rng.randint(1, 3), list(rng.choice(POOL))])
        cn = [[u, rng.randint(1, 3), list(rng.choice(POOL))] for u in rng.sample(range(ns), rng.randint(0, min(2, ns)))]
        par["ce"], par["cn"] = ce, cn
        lat = Lattice(n_cells=nc, vectors=base.vectors, positions=base.positions, boundary_condition=bc_arg(rng, bc),
                      custom_edges=[[(e[0], e[1]), (LET[e[2]] + LET[e[3]], num(e[4]))] for e in ce],
                      custom_nodes=[[n_[0], (LET[n_[1]], num(n_[2]))] for n_ in cn] if cn else None)
        op = qp.spin.spin_hamiltonian(lat)
        desc = f"spin_hamiltonian(Lattice({sh} {nc}, bc={bc}, custom_edges={[(e[0], e[1], LET[e[2]] + LET[e[3]], num(e[4])) for e in ce]}, custom_nodes={[(n_[0], LET[n_[1]], num(n_[2])) for n_ in cn]}))"
    else:
        sh, nc, bc, K = rand_config(rng, max_fermi_sites if fermi else max_spin_sites, 2 if model == "haldane" else kmax)
        if model == "haldane":
            K = 2
        ns = NSUB[sh] * math.prod(nc)
        matrix = rng.random() < 0.3
        bca = bc_arg(rng, bc)
        if fermi:
            mp = rng.choice(["jw", "jw", "par", "bk"])
        if model == "ising":
            par["h"] = list(rng.choice(POOL))
            if matrix:
                par["Jm"] = sym_matrix(rng, ns)
                cpl = mat_num(par["Jm"])
            else:
                par["J"] = [list(rng.choice(POOL)) for _ in range(K)]
                cpl = num(par["J"][0], rng) if (K == 1 and rng.random() < 0.5) else [num(c) for c in par["J"]]
            op = qp.spin.transverse_ising(sh, nc, coupling=cpl, h=num(par["h"], rng), boundary_condition=bca, neighbour_order=K)
            desc = f"transverse_ising({sh!r}, {nc}, coupling={'matrix' if matrix else cpl}, h={num(par['h'])}, boundary_condition={bc}, neighbour_order={K})"
        elif model == "heis":
            if matrix:
                par["Jm"] = [sym_matrix(rng, ns) for _ in range(3)]
                cpl = np.array([mat_num(m) for m in par["Jm"]])
            else:
                par["J"] = [[list(rng.choice(POOL)) for _ in range(3)] for _ in range(K)]
                cpl = [[num(c) for c in row] for row in par["J"]]
                if K == 1 and rng.random() < 0.5:
                    cpl = cpl[0]
            op = qp.spin.heisenberg(sh, nc, coupling=cpl, boundary_condition=bca, neighbour_order=K)
            desc = f"heisenberg({sh!r}, {nc}, coupling={'matrix' if matrix else cpl}, boundary_condition={bc}, neighbour_order={K})"
        elif model in ("hubbard", "emery"):
            if matrix:
                par["Jm"] = sym_matrix(rng, ns)
                hop = mat_num(par["Jm"])
            else:
                par["J"] = [list(rng.choice(POOL)) for _ in range(K)]
                hop = num(par["J"][0], rng) if (K == 1 and rng.random() < 0.5) else [num(c) for c in par["J"]]
            if rng.random() < 0.5:
                u = list(rng.choice(POOL))
                par["U"] = [u] * ns
                cou = num(u, rng)
            else:
                par["U"] = [list(rng.choice(POOL)) for _ in range(ns)]
                cou = [num(c) for c in par["U"]]
            if model == "hubbard":
                op = qp.spin.fermi_hubbard(sh, nc, hopping=hop, coulomb=cou, boundary_condition=bca, neighbour_order=K, mapping=MAPNAME[mp])
                desc = f"fermi_hubbard({sh!r}, {nc}, hopping={'matrix' if matrix else hop}, coulomb={cou}, boundary_condition={bc}, neighbour_order={K}, mapping={MAPNAME[mp]!r})"
            else:
                if rng.random() < 0.3:
                    par["Vm"] = sym_matrix(rng, ns)
                    inter = mat_num(par["Vm"])
                else:
                    par["V"] = [list(rng.choice(POOL)) for _ in range(K)]
                    inter = num(par["V"][0], rng) if (K == 1 and rng.random() < 0.5) else [num(c) for c in par["V"]]
                op = qp.spin.emery(sh, nc, hopping=hop, coulomb=cou, intersite_coupling=inter, boundary_condition=bca, neighbour_order=K,
                                   mapping=MAPNAME[mp])
                desc = (f"emery({sh!r}, {nc}, hopping={'matrix' if matrix else hop}, coulomb={cou}, intersite_coupling={'matrix' if par['Vm'] else inter}, "
                        f"boundary_condition={bc}, neighbour_order={K}, mapping={MAPNAME[mp]!r})")
        else:  # haldane
            if matrix:
                par["Jm"], par["T2m"] = sym_matrix(rng, ns), sym_matrix(rng, ns)
                par["phm"] = [[c[0] for c in row] for row in sym_matrix(rng, ns, ints=True)]
                h1, h2 = mat_num(par["Jm"]), mat_num(par["T2m"])
                phi = np.array(par["phm"], dtype=float) * (math.pi / 2)
            else:
                par["J"], par["T2"] = [list(rng.choice(POOL))], [list(rng.choice(POOL))]
                p = rng.randint(0, 3)
                par["ph"] = [p]
                h1, h2 = num(par["J"][0], rng), num(par["T2"][0], rng)
                phi = (p if rng.random() < 0.5 else p - 4) * (math.pi / 2)
            op = qp.spin.haldane(sh, nc, hopping=h1, hopping_next=h2, phi=phi, boundary_condition=bca, mapping=MAPNAME[mp])
            desc = (f"haldane({sh!r}, {nc}, hopping={'matrix' if matrix else h1}, hopping_next={'matrix' if matrix else h2}, "
                    f"phi={'matrix of multiples of pi/2' if matrix else phi}, boundary_condition={bc}, mapping={MAPNAME[mp]!r})")
    ns, edges = impl_edges(sh, nc, bc, K)
    nq = 2 * ns if fermi else ns
    terms, exact = ham_terms(op, nq, rounded=(model == "haldane"))
    return ({"kind": "ham", "model": model, "sh": sh, "nc": nc, "bc": bc, "K": K, "map": mp, "par": par, "edges": edges, "nsites": ns,
             "ham": terms, "nq": nq, "exact": exact}, desc)


def haldane_bridge_case(rng, max_sites):
    """Haldane model at a GENERAL phase (float bridge): the call, and three 'emit' records asking TLC for the exact operator at phi = 0, pi/2, pi."""
    sh, nc, bc, _ = rand_config(rng, max_sites, 2)
    mp = rng.choice(["jw", "jw", "par", "bk"])
    t1, t2 = list(rng.choice(POOL)), list(rng.choice(POOL))
    phi = rng.uniform(-3.1, 3.1)
    op = qp.spin.haldane(sh, nc, hopping=num(t1), hopping_next=num(t2), phi=phi, boundary_condition=bc_arg(rng, bc), mapping=MAPNAME[mp])
    ns, edges = impl_edges(sh, nc, bc, 2)
    got = ps_to_dict(qp.pauli.pauli_sentence(op), list(range(2 * ns)))
    emits = []
    for p_ in (0, 1, 2):
        par = empty_par()
        par["J"], par["T2"], par["ph"] = [t1], [t2], [p_]
        emits.append({"kind": "emit", "model": "haldane", "sh": sh, "nc": nc, "bc": bc, "K": 2, "map": mp, "par": par, "edges": edges, "nsites": ns,
                      "ham": [], "nq": 2 * ns, "exact": True})
    desc = f"haldane({sh!r}, {nc}, hopping={num(t1)}, hopping_next={num(t2)}, phi={phi!r}, boundary_condition={bc}, mapping={MAPNAME[mp]!r})"
    return emits, got, phi, desc


def bridge_expected(e0, e1, e2, phi):
    """H(phi) = H0 + cos(phi) Hc + sin(phi) Hs from the exact operators at phi = 0, pi/2, pi (the model is linear in e^{+-i phi})."""
    out = {}
    for w in set(e0) | set(e1) | set(e2):
        a, b, c = e0.get(w, 0), e1.get(w, 0), e2.get(w, 0)
        h0, hc = (a + c) / 2, (a - c) / 2
        out[w] = h0 + math.cos(phi) * hc + math.sin(phi) * (b - h0)
    return out


def lattice_record(sh, nc, bc, K):
    ns, edges = impl_edges(sh, nc, bc, K)
    return {"kind": "lattice", "model": "", "sh": sh, "nc": nc, "bc": bc, "K": K, "map": "jw", "par": empty_par(), "edges": edges, "nsites": ns,
            "ham": [], "nq": ns, "exact": True}


def run_trace(name, recs):
    wd = lib.workdir(PID, name)
    (wd / "traces.json").write_text(json.dumps(recs))
    r = lib.run_tlc("Trace_SpinLattice", lib.cfg(constants={"M": M, "NTRACES": len(recs)}), wd, env={"TRACE_FILE": str(wd / "traces.json")},
                    timeout=3000)
    lib.require_ok(r, f"Trace_SpinLattice {name}")
    verd = {t[1] - 1: t[2] for t in r.tuples if t[0] == "V"}
    if len(verd) != len(recs):
        raise lib.MachineryError(f"verdicts are not total: {len(verd)} of {len(recs)}")
    r.emitted = {j["tid"] - 1: terms_to_dict(j["terms"]) for j in r.json_lines}
    return verd, r


# ------------------------------------------------------------------------------------------------ REPLAY of the lattices
def replay_lattice(agg, stats, c):
    sh, nc, bc, K = c["sh"], c["nc"], c["bc"], c["K"]
    what = f"generate_lattice({sh!r}, {nc}, boundary_condition={bc}, neighbour_order={K})"
    try:
        lat = generate_lattice(sh, nc, bc, K)
    except Exception as e:  # noqa: BLE001
        agg.add(f"lattice:{sh}:{type(e).__name__}", f"{what} raised {type(e).__name__}: {e}", {"case": c})
        return None
    impl, loops = {}, False
    for (u, v, k) in lat.edges:
        loops = loops or u == v
        impl.setdefault(int(k), set()).add((int(u), int(v)))
    spec = [set(map(tuple, e)) for e in c["E"]]
    if lat.n_sites != c["n"]:
        agg.add(f"lattice:{sh}:sites-differ", f"{what}: {lat.n_sites} sites, expected {c['n']}", {"case": c})
        return None
    if c["loops"]:
        stats["replay_skipped_self_image"] = stats.get("replay_skipped_self_image", 0) + 1
        return "skip"
    sp = c["solid"]
    for k in range(sp):
        if impl.get(k, set()) != spec[k]:
            miss, extra = sorted(spec[k] - impl.get(k, set())), sorted(impl.get(k, set()) - spec[k])
            agg.add(f"lattice:{sh}:edges-differ", f"{what}: neighbour class {k + 1} differs: missing {miss[:6]}, unexpected {extra[:6]}",
                    {"case": c, "impl_edges": [list(e) for e in lat.edges]})
            return None
    if any(k >= K or k < 0 for k in impl):
        agg.add(f"lattice:{sh}:class-out-of-range", f"{what}: edge classes {sorted(impl)}", {"case": c})
        return None
    if sp < K and any(impl.get(k) for k in range(sp, K)):
        stats["replay_rank_gap"] = stats.get("replay_rank_gap", 0) + 1
        return "gap"
    if loops:
        agg.add(f"lattice:{sh}:self-loop", f"{what}: returns a self-loop edge although no site is its own neighbour", {"case": c})
        return None
    return "ok"


def corrupt(r, how):
    x = json.loads(json.dumps(r))
    if r["kind"] == "lattice":
        if how == 0:
            x["edges"] = x["edges"][1:]
        elif how == 1:
            x["edges"][0][1] = (x["edges"][0][1] + 1) % x["nsites"] if (x["edges"][0][1] + 1) % x["nsites"] != x["edges"][0][0] else (x["edges"][0][1] + 2) % x["nsites"]
        else:
            x["nsites"] += 1
    else:
        if how == 0:
            x["ham"][0]["c"][0] += 1
        elif how == 1:
            x["ham"] = x["ham"][1:]
        else:
            x["ham"][-1]["c"][1] = 1
    return x


# ------------------------------------------------------------------------------------------------ run
def run(tier, seed):
    rng = random.Random(seed)
    quick = tier == "quick"
    agg, stats = Agg(), {}
    consts = {"M": M, "N1": 6, "N2": 3, "N3": 2, "KG": 2} if quick else {"M": M, "N1": 8, "N2": 3, "N3": 2, "KG": 3}
    wd = lib.workdir(PID, "gen")
    g = lib.run_tlc("SpinLatticeGen", lib.cfg(constants=consts, invariants=["Lawful"]), wd, timeout=3000)
    if g.invariant_violated:
        raise lib.MachineryError("the lattice reference violates its own laws (oracle error): " + g.out[-1500:])
    lib.require_ok(g, "SpinLatticeGen")
    geo = [c for c in g.json_lines if c["kind"] == "geo"]
    lats = [c for c in g.json_lines if c["kind"] == "lat"]
    exp_n = sum((consts["N1"] * 2 if d == 1 else consts["N2"] ** 2 * 4 if d == 2 else consts["N3"] ** 3 * 8) * consts["KG"] for d in SHAPES.values())
    if len(geo) != len(SHAPES) or len(lats) != exp_n:
        raise lib.MachineryError(f"generator emitted {len(geo)} geometry and {len(lats)} lattice cases, expected {len(SHAPES)} and {exp_n}")
    n_eval, nontriv, res_count = 0, set(), {}
    for c in sorted(lats, key=lambda c: (c["sh"], c["nc"], c["bc"], c["K"])):
        n_eval += 1
        r = replay_lattice(agg, stats, c)
        res_count[str(r)] = res_count.get(str(r), 0) + 1
        if r == "ok" and sum(len(e) for e in c["E"]) >= 2:
            nontriv.add(("lat", c["sh"], tuple(c["nc"]), tuple(c["bc"]), c["K"]))
    # negative control of the replay comparator
    tmp = Agg()
    c0 = json.loads(json.dumps(next(c for c in lats if c["sh"] == "kagome" and c["nc"] == [2, 2] and c["K"] == 1 and not any(c["bc"]))))
    c0["E"][0] = c0["E"][0][1:]
    replay_lattice(tmp, {}, c0)
    if len(tmp.d) != 1:
        raise lib.MachineryError("negative control accepted by the lattice replay comparator")
    neg = 1
    # ---- TRACE
    recs, meta = [], []
    plan = [("ising", 14), ("heis", 14), ("kitaev", 0), ("custom", 12), ("hubbard", 12), ("emery", 10), ("haldane", 12)]
    mult = 1 if quick else 12
    todo = [(model, None) for model, cnt in plan for _ in range(cnt * mult)]
    # kitaev: EVERY honeycomb of 1..3 x 1..3 cells (1..4 in the thorough tier) with every open / periodic combination
    kn = 3 if quick else 4
    todo += [("kitaev", ([a, b], [p0, p1])) for a in range(1, kn + 1) for b in range(1, kn + 1) for p0 in (False, True) for p1 in (False, True)]
    for model, fixed in todo:
        try:
            r, d = call_model(rng, model, 18 if quick else 27, 6 if quick else 8, 2 if quick else 3, fixed)
        except lib.MachineryError:
            raise
        except Exception as e:  # noqa: BLE001
            tag = model_tag({"kind": "ham", "model": model, "nc": fixed[0] if fixed else []})
            agg.add(f"ham:{tag}:{type(e).__name__}", f"{model}{'(' + str(fixed[0]) + ', boundary_condition=' + str(fixed[1]) + ')' if fixed else ''} raised "
                    f"{type(e).__name__}: {e}", {"model": model, "fixed": fixed})
            continue
        n_eval += 1
        recs.append(r)
        meta.append(d)
    for _ in range(30 * mult):
        sh, nc, bc, K = rand_config(rng, 40 if quick else 60, 3, None, 2)
        if SHAPES[sh] == 1:
            nc = [rng.randint(7, 12)]
        elif SHAPES[sh] == 2 and rng.random() < 0.5:
            nc = [rng.randint(2, 4), rng.randint(3, 4)]
        elif SHAPES[sh] == 3 and rng.random() < 0.5:
            nc = [3, 2, rng.randint(1, 2)]
        if NSUB[sh] * math.prod(nc) > (48 if quick else 72):
            continue
        n_eval += 1
        recs.append(lattice_record(sh, nc, bc, K))
        meta.append(f"generate_lattice({sh!r}, {nc}, boundary_condition={bc}, neighbour_order={K})")
    bridge = []
    for _ in range(8 if quick else 100):
        try:
            emits, got, phi, d = haldane_bridge_case(rng, 6 if quick else 8)
        except lib.MachineryError:
            raise
        except Exception as e:  # noqa: BLE001
            agg.add(f"ham:haldane:{type(e).__name__}", f"haldane raised {type(e).__name__}: {e}", {"model": "haldane"})
            continue
        n_eval += 1
        bridge.append((len(recs), got, phi, d, emits[0]["map"]))
        recs += emits
        meta += [d] * 3
    verd, tr = run_trace("trace", recs)
    # float bridge: Haldane model at a general phase against the operator assembled from TLC's exact operators at 0, pi/2, pi
    n_bridged, bridge_neg = 0, False
    for (k0, got, phi, d, mp_) in bridge:
        vs = [verd[k0], verd[k0 + 1], verd[k0 + 2]]
        if any(v != "emitted" for v in vs):
            bad = [v for v in vs if not v.startswith("skip") and v != "emitted"]
            if bad:
                agg.add(f"bridge:haldane:{mp_}:{bad[0]}", f"{bad[0]}: {d}", {"call": d})
            else:
                stats["bridge_" + vs[0]] = stats.get("bridge_" + vs[0], 0) + 1
            continue
        e0, e1, e2 = (tr.emitted[k0 + i] for i in range(3))
        if got is None:
            agg.add(f"bridge:haldane:{mp_}:malformed-output", f"operator acts outside wires 0..2n-1: {d}", {"call": d})
            continue
        why = sentence_diff(got, bridge_expected(e0, e1, e2, phi))
        if why is None and any(abs(complex(c).imag) > 1e-9 for c in got.values()):
            why = "a coefficient is not real (operator not Hermitian)"
        if why:
            agg.add(f"bridge:haldane:{mp_}:hamiltonian-differs", f"{why}; {d}", {"call": d, "phi": phi})
        else:
            n_bridged += 1
            nontriv.add(("bridge", d))
            if not bridge_neg and sentence_diff(got, bridge_expected(e0, e1, e2, phi + 0.05)) is not None:
                bridge_neg = True
    if bridge and n_bridged and not bridge_neg:
        raise lib.MachineryError("negative control accepted by the Haldane float bridge (a shifted phase was not distinguished)")
    if not n_bridged and not agg.d:
        raise lib.MachineryError("vacuity: no Haldane case at a general phase was bridged")
    neg += 1 if bridge_neg else 0
    # negative controls: corrupted copies of ACCEPTED records must be rejected
    ctrl = []
    for kind, model in (("lattice", ""), ("ham", "ising"), ("ham", "heis"), ("ham", "kitaev"), ("ham", "custom"), ("ham", "hubbard"), ("ham", "emery"),
                        ("ham", "haldane")):
        base = next((r for k, r in enumerate(recs) if verd[k] == "ok" and r["kind"] == kind and r["model"] == model
                     and len(r["ham"] if kind == "ham" else r["edges"]) >= 3 and r["nsites"] >= 3), None)
        if base is None:
            if agg.d or any(not v.startswith(("ok", "skip")) for v in verd.values()):
                continue
            raise lib.MachineryError(f"no accepted recorded call suitable for the negative control of {kind} {model}")
        ctrl += [corrupt(base, h) for h in range(3)]
    if ctrl:
        cverd, ctr = run_trace("control", ctrl)
        for k, x in enumerate(ctrl):
            if cverd[k].startswith(("ok", "skip")):
                raise lib.MachineryError(f"negative control not rejected by Trace_SpinLattice (verdict {cverd[k]}): " + json.dumps(x)[:400])
            neg += 1
    by_verdict, by_model, t_ok = {}, {}, 0
    for k, r in enumerate(recs):
        v = verd[k]
        if r["kind"] == "emit":
            continue
        by_verdict[v] = by_verdict.get(v, 0) + 1
        tag = r["model"] or "lattice"
        vtag = model_tag(r)
        if v.startswith("ok"):
            t_ok += 1
            by_model[tag] = by_model.get(tag, 0) + 1
            if (r["kind"] == "ham" and len(r["ham"]) >= 3) or (r["kind"] == "lattice" and len(r["edges"]) >= 3):
                nontriv.add((tag, meta[k]))
        elif v.startswith("skip"):
            stats["trace_" + v] = stats.get("trace_" + v, 0) + 1
        else:
            agg.add(f"trace:{vtag}:{r['sh'] if r['kind'] == 'lattice' else r['map']}:{v}",
                    f"{v}: {meta[k]} returned {show_terms(r['ham'])[:500] if r['kind'] == 'ham' else r['edges'][:40]}", {"record": r, "call": meta[k]})
    for model, _ in plan + [("lattice", 0)]:
        if not by_model.get(model) and not agg.d:
            raise lib.MachineryError(f"vacuity: no accepted trace record for '{model}'")
    real = [r for r in recs if r["kind"] != "emit"]
    flags = {"matrix_couplings": sum(1 for r in real if r["kind"] == "ham" and (r["par"]["Jm"] or r["par"]["Vm"])),
             "periodic": sum(1 for r in real if any(r["bc"])), "second_or_third_neighbours": sum(1 for r in real if r["K"] >= 2),
             "parity_or_bk_mapping": sum(1 for r in real if r["map"] != "jw"),
             "haldane_nontrivial_phase": sum(1 for r in real if r["model"] == "haldane" and (r["par"]["phm"] or (r["par"]["ph"] and r["par"]["ph"][0] % 2 == 1)))}
    for k_, v_ in flags.items():
        if not v_:
            raise lib.MachineryError(f"vacuity: no trace record with {k_}")
    samples = [{"kind": "geometry", "shape": c["sh"], "squared_neighbour_distances": c["d"], "coordination_z1_z2_z3": c["z"]} for c in geo if c["sh"] in ("kagome", "diamond")]
    samples += [{"kind": "lattice", "call": f"generate_lattice({c['sh']!r}, {c['nc']}, {c['bc']}, {c['K']})", "edge_classes": c["E"]}
                for c in lats if c["sh"] == "honeycomb" and c["nc"] == [2, 2] and c["bc"] == [True, False] and c["K"] == 2][:1]
    samples += [{"kind": "hamiltonian", "call": meta[k][:300], "verdict": verd[k], "operator": show_terms(r["ham"])[:300]}
                for k, r in enumerate(recs) if r["kind"] == "ham" and r["model"] in ("haldane", "kitaev") and verd[k] == "ok"][:2]
    cov = {"states": g.distinct + tr.distinct, "transitions": g.generated + tr.generated,
           "traces_validated_against_impl": sum(1 for r in recs if r["kind"] != "emit"), "traces_ok": t_ok, "evaluations": n_eval,
           "haldane_general_phase_cases_bridged": n_bridged,
           "distinct_nontrivial": len(nontriv),
           "rule": "distinct lattice configurations with >= 2 edges whose replay agreed, plus distinct accepted trace records (operator with >= 3 terms "
                   "or lattice with >= 3 edges)",
           "samples": samples, "exhaustive": True,
           "exhaustive_part": f"lattices: all 11 shapes, chain <= {consts['N1']}, 2-D cells <= {consts['N2']}x{consts['N2']}, 3-D cells <= "
                              f"{consts['N3']}^3, every open/periodic combination, neighbour order 1..{consts['KG']} ({len(lats)} configurations)",
           "sampled_part": "Hamiltonians: seeded shape / size / boundary / order / couplings (scalars, per-order lists, site matrices) / mapping; "
                           "larger lattices by trace",
           "lattice_replay_results": res_count, "trace_verdicts": dict(sorted(by_verdict.items())), "accepted_by_model": dict(sorted(by_model.items())),
           "input_classes": flags, "negative_controls_rejected": neg, "counts": dict(sorted(stats.items())),
           "model_drift": stats.get("replay_rank_gap", 0) + by_verdict.get("ok:rank-gap", 0),
           "tlc": {"generator": {"generated": g.generated, "distinct": g.distinct, "wall_s": round(g.wall_s, 1),
                                 "invariant": "Lawful (geometry tables = textbook bonds / coordination / distance ratios; per-configuration laws)"},
                   "trace": {"generated": tr.generated, "distinct": tr.distinct, "wall_s": round(tr.wall_s, 1)}}}
    return CheckResult(coverage=cov, violations=agg.violations(),
                       assumptions=["couplings are dyadic rationals so that every coefficient is observable exactly; in the exact part the Haldane phase is a "
                                    "multiple of pi/2 (e^{i phi} in {1, i, -1, -i}, coefficients snapped to dyadics within 1e-9); general phases are "
                                    "bridged numerically (1e-9) against H0 + cos(phi) Hc + sin(phi) Hs assembled from TLC's exact operators at 0, pi/2, pi",
                                    "edges are compared as sets per neighbour class; site matrices are symmetric",
                                    "not decided (counted, never a violation): inputs where a site is its own k-th neighbour through a periodic image "
                                    "(self-loop edges), finite lattices that do not realise all of the first K neighbour distances (PennyLane then ranks "
                                    "the distances that do occur, the spec ranks distances of the infinite lattice; only the common prefix is compared), "
                                    "site-matrix couplings when a pair belongs to two classes",
                                    "the Kitaev bond types follow the documented example (XX on A(c)-B(c), YY on B(c)-A(c+e2), ZZ on B(c)-A(c+e1)); the "
                                    "prose of the docstring attaches the X and Y labels to the other two bond directions",
                                    "Haldane: the orientation of the complex next-neighbour hopping is i < j by site number, as in the documented formula"])
