"""C02 Named gates implement their documented unitaries.  REPLAY: GateTable.tla enumerates gate instances
over the whole angle lattice, TLC computes the exact documented matrix (and proves it unitary); the driver builds
the same instance in PennyLane and compares qp.matrix / compute_matrix / broadcast kernel / wire-order embedding."""
import time

import numpy as np

import pennylane as qp

from .. import lib
from ..codec import decode_gate
from ..lib import CheckResult, Violation, angle_of, ring_matrix_to_numpy

TOL = 1e-8


def _cmp(key, what, got, exp, viol, case):
    got = np.asarray(got)
    if got.shape != exp.shape or not np.allclose(got, exp, atol=TOL, rtol=0):
        err = float(np.max(np.abs(got - exp))) if got.shape == exp.shape else -1.0
        viol.append(Violation(key=f"{key}:{what}", detail=f"{what} differs from documented matrix (max err {err:.3g}) for {case}",
                              replay={"case": case, "expected": exp.tolist().__repr__(), "got": got.tolist().__repr__()}))
        return False
    return True


def _static_matrix(cls, params, op, gp=False):
    """compute_matrix the way Operator.matrix() calls it: parameters, wires, hyperparameters."""
    import inspect
    kw = dict(op.hyperparameters)
    sig = inspect.signature(cls.compute_matrix).parameters
    if "wires" in sig:
        kw["wires"] = [0] if gp else op.wires
    return cls.compute_matrix(*params, **kw)


def run(tier, seed):
    M = 4 if tier == "quick" else 5
    grid = "{0,1,3,6,8,13}" if tier == "quick" else "{0,1,2,5,9,12,16,23,31}"
    wd = lib.workdir("C02", "gen")
    r = lib.run_tlc("GateTable", lib.cfg(constants={"M": M, "Grid3": grid}, invariants=["Unitary"]), wd, timeout=3000)
    viol = []
    if r.invariant_violated:
        raise lib.MachineryError("reference table is not unitary (oracle error): " + r.out[-1500:])
    lib.require_ok(r, "GateTable")
    cases = r.json_lines
    if len(cases) < 100:
        raise lib.MachineryError("generator produced too few cases")
    n_eval, nontriv, samples = 0, set(), []
    by_gate = {}
    neg_ctrl = 0
    for item in cases:
        c = item["c"]
        exp = ring_matrix_to_numpy(item["mat"], M)
        key = f"{c['g']}{c['p']}{c['x']}"
        try:
            op = decode_gate(c, M)
            gp = c["g"] == "GlobalPhase"       # wire-less scalar: compare on a one-wire register
            got = qp.matrix(op, wire_order=[0]) if gp else qp.matrix(op)
            n_eval += 1
            ok = _cmp(key, "qp.matrix", got, exp, viol, c)
            # unitarity of the implementation's matrix
            if not np.allclose(got.conj().T @ got, np.eye(len(got)), atol=TOL):
                viol.append(Violation(key=f"{key}:unitary", detail=f"matrix of {c} is not unitary", replay={"case": c}))
            # static compute_matrix with the same parameters / hyperparameters
            got2 = op.matrix(wire_order=[0]) if gp else op.matrix()
            _cmp(key, "op.matrix()", got2, exp, viol, c)
            if item["rev"]["e"]:
                n = len(c["w"])
                exp_r = ring_matrix_to_numpy(item["rev"], M)
                op_r = decode_gate(dict(c, w=list(range(n, 0, -1))), M)
                got_r = qp.matrix(op_r, wire_order=list(range(n)))
                _cmp(key, "qp.matrix(reversed wires, natural wire_order)", got_r, exp_r, viol, c)
                n_eval += 1
            if ok and (c["p"] and any(a % (1 << (M - 1)) for a in c["p"])):
                nontriv.add(key)
            elif ok and not c["p"]:
                nontriv.add(key)
            if len(c["p"]) == 1 and c["g"] not in ("PauliRot", "MultiRZ"):
                by_gate.setdefault((c["g"], len(c["w"])), []).append((c["p"][0], exp))
            if len(samples) < 5 and c["p"]:
                samples.append({"case": c, "expected_matrix_first_row": [complex(z).__repr__() for z in exp[0]]})
        except Exception as e:  # an exception on a valid instance is itself a violation of "every parameter value"
            viol.append(Violation(key=f"{key}:exception", detail=f"{type(e).__name__}: {e} for {c}", replay={"case": c}))
    # broadcast kernel: the batched matrix equals the stack of per-angle reference matrices
    n_b = 0
    for (g, nw), lst in by_gate.items():
        lst.sort(key=lambda t: t[0])
        angles = np.array([angle_of(a, M) for a, _ in lst])
        expb = np.stack([e for _, e in lst])
        try:
            cls = getattr(qp, g)
            op = cls(angles, wires=list(range(nw)))
            gotb = qp.matrix(op, wire_order=[0]) if g == "GlobalPhase" else qp.matrix(op)
            n_b += 1
            _cmp(f"{g}[batch]", "broadcast qp.matrix", gotb, expb, viol, {"g": g, "batch": len(angles)})
            gotc = op.matrix(wire_order=[0]) if g == "GlobalPhase" else op.matrix()
            _cmp(f"{g}[batch]", "broadcast op.matrix()", gotc, expb, viol, {"g": g, "batch": len(angles)})
        except Exception as e:
            viol.append(Violation(key=f"{g}[batch]:exception", detail=f"{type(e).__name__}: {e}", replay={"g": g}))
    # negative control: a perturbed expectation must be rejected by the comparator
    tmp = []
    c0 = next(i for i in cases if i["c"]["g"] == "RX" and i["c"]["p"] == [1])
    bad = ring_matrix_to_numpy(c0["mat"], M).copy()
    bad[0, 1] = -bad[0, 1]
    _cmp("neg", "qp.matrix", qp.matrix(decode_gate(c0["c"], M)), bad, tmp, c0["c"])
    if not tmp:
        raise lib.MachineryError("negative control accepted")
    neg_ctrl += 1
    cov = {"states": r.distinct, "transitions": r.generated, "traces_validated_against_impl": n_eval,
           "evaluations": n_eval + n_b, "distinct_nontrivial": len(nontriv),
           "rule": "GateTable.tla enumerates (gate, lattice angle tuple, wire listing); non-trivial = distinct (gate, angles, word) "
                   "with an angle that is not a multiple of 2*pi (or a parameter-free gate) whose matrix was compared",
           "samples": samples, "exhaustive": True, "ring_level_M": M, "angle_unit": f"4*pi/{1<<M}",
           "broadcast_batches": n_b, "negative_controls_rejected": neg_ctrl,
           "tlc": {"generated": r.generated, "distinct": r.distinct, "wall_s": round(r.wall_s, 1),
                   "invariant": "Unitary (exact, on the reference table)"}}
    return CheckResult(coverage=cov, violations=viol,
                       assumptions=["entries of every gate are trigonometric polynomials of degree <= 1 in the half-angles, so "
                                    "agreement on the whole lattice (>= 16 points per parameter) fixes them for all reals",
                                    "float comparison at 1e-8 against exact ring values evaluated in float64"])
