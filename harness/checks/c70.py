"""C70 default.clifford simulates stabilizer circuits exactly.

Two models, both evaluated by TLC in lock step (spec/trace/Trace_Clifford.tla):
  * the exact state-vector semantics of TapeEval.tla at ring level M = 3 (circuits on <= 5 wires), and
  * the stabilizer-tableau model spec/sys/Tableau.tla (Aaronson-Gottesman update rules for H, S, CNOT; every other table gate is a
    product of those) for circuits on up to 10 wires.
TLC checks the models against each other (every stabilizer row of the tableau model has exact expectation +1 in the exact state, every
requested Pauli expectation agrees, the model tableau is symplectic) - exhaustively for all one/two-gate circuits on two wires.

Binding to the code
  REPLAY  TLC emits the expected value of every request (Pauli-word expectation / variance / Hamiltonian / probabilities / projector
          expectation / state); the driver executes the same tape on default.clifford (tableau=True and tableau=False, integer and
          custom wire labels, with and without device wires) and compares.
  TRACE   the tableau the device returns for qp.state() is recorded (integers) and validated by TLC: shape, stabilizer generators
          commute, are independent, each one - sign included - stabilizes the model's state and (<= 5 wires) the exact state
          (<psi|P|psi> = 1 exactly).  Row-by-row equality with the model tableau and the destabilizer pairing are mechanism facts:
          counted, never a violation.
  non-Clifford / unsupported gates: must be rejected (an exception; DeviceError is the documented class) or give the exact values.
  samples (partial, statistical): G-test of sample / counts / probs / expval with shots against TLC's exact probabilities.
  finite-shot expval / var of MULTI-TERM observables (Sum / Hamiltonian / Hermitian = linear combinations of Pauli words, 'lc' of a case):
          TLC decides per combination the exact value, whether every term is +-(a stabilizer) (then every shot of every term is
          deterministic: any estimate must equal the exact value, and the variance must be 0) and otherwise the deviation bound.
"""
import itertools
import json
import random
import time
import warnings

import numpy as np

import pennylane as qp

from .. import devsim, lib, tapeeval
from ..codec import decode_gate, rec
from ..lib import CheckResult, Violation, ring_to_complex
from .c21 import chi2_sf, gtest

M = 3
ADJ = [{"t": "adj"}]
# (name, adjoint?) - the Clifford gate table of the tableau model
T1 = [("Identity", 0), ("PauliX", 0), ("PauliY", 0), ("PauliZ", 0), ("Hadamard", 0), ("S", 0), ("S", 1), ("SX", 0), ("SX", 1),
      ("Hadamard", 1), ("PauliX", 1)]
T2 = [("CNOT", 0), ("CZ", 0), ("CY", 0), ("SWAP", 0), ("ISWAP", 0), ("ISWAP", 1), ("CNOT", 1)]


def gname(g):
    return ("Adjoint(%s)" % g["g"]) if g["mods"] else g["g"]


def mk(name, adj, wires, p=()):
    return rec(name, wires, p, mods=ADJ if adj else ())


def table_gates(n):
    out = [mk(g, a, [w]) for g, a in T1 for w in range(1, n + 1)]
    out += [mk(g, a, [w, v]) for g, a in T2 for w in range(1, n + 1) for v in range(1, n + 1) if w != v]
    return out


# ------------------------------------------------------------------------------------------------- device side
class Dev:
    """default.clifford devices for one case (tableau=True / tableau=False)."""

    def __init__(self, labels, devwires):
        kw = {"wires": labels} if devwires else {}
        self.t = qp.device("default.clifford", tableau=True, **kw)
        self.f = qp.device("default.clifford", tableau=False, **kw)


def run_tape(ops, mps, dev, shots=None):
    tape = qp.tape.QuantumScript(ops, mps, shots=shots)
    with warnings.catch_warnings():
        warnings.simplefilter("ignore")
        out = qp.execute([tape], dev, diff_method=None)[0]
    return out, tape


def word_obs(pw, labels):
    return devsim.word_op(pw, labels)


def build_mps(meas, labels):
    out = []
    for m in meas:
        k = m[0]
        if k == "expval":
            out.append(qp.expval(word_obs(m[1], labels)))
        elif k == "var":
            out.append(qp.var(word_obs(m[1], labels)))
        elif k == "ham":
            out.append(qp.expval(qp.dot([c for c, _ in m[1]], [word_obs(pw, labels) for _, pw in m[1]])))
        elif k == "probs":
            out.append(qp.probs(wires=[labels[w - 1] for w in m[1]]))
        elif k == "proj":
            out.append(qp.expval(qp.Projector(np.array(m[2]), wires=[labels[w - 1] for w in m[1]])))
        elif k == "state":
            out.append(qp.state())
    return out


def requests(meas, sv):
    """TLC requests of a measurement list; idx[j] = position of the first request of measurement j (None: not evaluated)."""
    req, idx = [], []
    for m in meas:
        k = m[0]
        if k in ("expval", "var"):
            idx.append(len(req))
            req.append({"t": "expval", "pw": list(m[1]), "w": []})
        elif k == "ham":
            idx.append(len(req))
            req += [{"t": "expval", "pw": list(pw), "w": []} for _, pw in m[1]]
        elif k in ("probs", "proj") and sv:
            idx.append(len(req))
            req.append({"t": "probs", "w": list(m[1]), "pw": []})
        elif k == "state" and sv:
            idx.append(len(req))
            req.append({"t": "state", "w": [], "pw": []})
        else:
            idx.append(None)
    return req, idx


def tableau_rows(arr, n, perm=None):
    """device tableau (2m x 2m+1 integer array, m <= n) -> 2n rows {x, z, r} in position order; idle trailing wires padded with
    their |0> rows; perm[j] = position (0-based) of the device's qubit j."""
    arr = np.asarray(arr)
    if arr.ndim != 2 or arr.shape[0] % 2 or arr.shape[1] != arr.shape[0] + 1 or arr.shape[0] // 2 > n:
        return None, 0
    if not np.all(np.isin(arr, (0, 1))):
        return None, 0
    a = arr.astype(int)
    m = a.shape[0] // 2
    perm = list(perm) if perm is not None else list(range(n))
    rows = [None] * (2 * n)
    for blk in (0, 1):
        for j in range(n):
            x, z = [0] * n, [0] * n
            if j < m:
                src = a[blk * m + j]
                for q in range(m):
                    x[perm[q]], z[perm[q]] = int(src[q]), int(src[m + q])
                r = int(src[2 * m])
            else:
                (x if blk == 0 else z)[perm[j]] = 1
                r = 0
            rows[blk * n + perm[j]] = {"x": x, "z": z, "r": r}
    return rows, m


# ------------------------------------------------------------------------------------------------- TLC side
def run_trace(cases, name, timeout=3000):
    out = [None] * len(cases)
    wd = lib.workdir("C70", name)
    (wd / "cases.json").write_text(json.dumps(cases))
    r = lib.run_tlc("Trace_Clifford", lib.cfg(init="CInit", next_="CNext", constants={"M": M, "NCASES": len(cases)}), wd,
                    env={"TRACE_FILE": str(wd / "cases.json")}, timeout=timeout)
    lib.require_ok(r, f"Trace_Clifford batch {name}")
    for j in r.json_lines:
        if j["overflow"]:
            raise lib.MachineryError("ring coefficient overflow in Trace_Clifford")
        out[j["tid"] - 1] = j
    if any(o is None for o in out):
        k = [i for i, o in enumerate(out) if o is None][0]
        raise lib.MachineryError(f"Trace_Clifford did not emit every case (first missing: {json.dumps(cases[k])[:300]})")
    return out, r


def sc(x):
    return ring_to_complex(x["c"], x["k"], M)


# ------------------------------------------------------------------------------------------------- case generation
def rand_word(rng, n, dens=0.6):
    pw = [rng.randint(1, 3) if rng.random() < dens else 0 for _ in range(n)]
    if not any(pw):
        pw[rng.randrange(n)] = rng.randint(1, 3)
    return pw


def rand_meas(rng, n, sv, group_words):
    """measurement list: words from the stabilizer group reported by the device (values +-1) mixed with random words (mostly 0)"""
    meas = []
    words = [rng.choice(group_words) if group_words and rng.random() < 0.6 else rand_word(rng, n) for _ in range(rng.randint(3, 6))]
    for pw in words:
        meas.append((rng.choice(["expval", "expval", "var"]), pw))
    if rng.random() < 0.6:
        meas.append(("ham", [(rng.choice([0.5, -1.0, 2.0, 0.25, -0.75]), rng.choice(group_words) if group_words and rng.random() < 0.7 else rand_word(rng, n))
                             for _ in range(rng.randint(2, 3))]))
    if sv:
        for _ in range(rng.randint(1, 2)):
            meas.append(("probs", rng.sample(range(1, n + 1), rng.randint(1, n))))
        if rng.random() < 0.5:
            ws = rng.sample(range(1, n + 1), rng.randint(1, min(n, 3)))
            meas.append(("proj", ws, [rng.randint(0, 1) for _ in ws]))
    return meas


def group_words_of(rows, n, rng, k=6):
    """unsigned Pauli words of products of random non-empty subsets of the reported stabilizer rows"""
    out = []
    if rows is None:
        return out
    for _ in range(k):
        sub = [i for i in range(n) if rng.random() < 0.5] or [rng.randrange(n)]
        x, z = [0] * n, [0] * n
        for i in sub:
            x = [a ^ b for a, b in zip(x, rows[n + i]["x"])]
            z = [a ^ b for a, b in zip(z, rows[n + i]["z"])]
        pw = [{(0, 0): 0, (1, 0): 1, (1, 1): 2, (0, 1): 3}[(a, b)] for a, b in zip(x, z)]
        if any(pw):
            out.append(pw)
    return out


def enc_lc(lcs):
    """linear combinations [(quarters, word), ...] -> TLC records [c, s, pw] (coefficient = (-1)^s c/4)"""
    return [[{"c": abs(q), "s": 1 if q < 0 else 0, "pw": list(pw)} for q, pw in terms] for terms in lcs]


def rand_lincombs(rng, n, group_words):
    """two linear combinations of >= 2 distinct Pauli words (coefficients in quarters): the first from the reported stabilizer group
    (TLC decides the signs; deterministic shots), the second mixed with random words (mostly fair coins)"""
    out = []
    for k in range(2):
        terms, seen = [], set()
        for _ in range(rng.randint(2, 4) * 3):
            pw = rng.choice(group_words) if group_words and (k == 0 or rng.random() < 0.5) else rand_word(rng, n)
            if tuple(pw) not in seen and len(terms) < 4:
                seen.add(tuple(pw))
                terms.append((rng.choice([1, 2, 3, 4, 6, 8]) * rng.choice([1, -1]), list(pw)))
        out.append(terms)
    return out


# controls of the finite-shot decision on H(1) CNOT(1,2) (XX = ZZ = +1, YY = -1, ZI = 0): (terms, num, loose, det)
LC_CONTROLS = [([(2, [1, 1]), (-3, [3, 3]), (1, [2, 2])], -2, 0, True), ([(4, [3, 0]), (2, [1, 1]), (-1, [0, 1])], 2, 5, False)]

NEG = [  # hand-written trace records for H(1) CNOT(1,2): (stabilizer rows as (x, z, r)), expected verdict, expected eq flag
    ("correct", [([1, 1], [0, 0], 0), ([0, 0], [1, 1], 0)], "ok", True),
    ("other-generators", [([1, 1], [1, 1], 1), ([0, 0], [1, 1], 0)], "ok", False),            # -YY = XX.ZZ
    ("sign", [([1, 1], [0, 0], 1), ([0, 0], [1, 1], 0)], "stabilizer-not-in-the-stabilizer-group", False),
    ("plus-YY", [([1, 1], [1, 1], 0), ([0, 0], [1, 1], 0)], "stabilizer-not-in-the-stabilizer-group", False),
    ("dependent", [([1, 1], [0, 0], 0), ([1, 1], [0, 0], 0)], "stabilizers-dependent", False),
    ("non-commuting", [([1, 1], [0, 0], 0), ([0, 0], [1, 0], 0)], "stabilizers-do-not-commute", False),
    ("shape", [([1, 1, 0], [0, 0, 0], 0), ([0, 0], [1, 1], 0)], "shape", False),
]


def neg_cases():
    out = []
    for _, stabs, _, _ in NEG:
        rows = [{"x": [0, 0], "z": [1, 0], "r": 0}, {"x": [0, 1], "z": [0, 0], "r": 0}] + [{"x": x, "z": z, "r": r} for x, z, r in stabs]
        out.append({"n": 2, "sv": 1, "ops": [mk("Hadamard", 0, [1]), mk("CNOT", 0, [1, 2])], "meas": [{"t": "expval", "pw": [1, 1], "w": []}],
                    "dev": {"has": 1, "rows": rows}, "lc": enc_lc([t for t, _, _, _ in LC_CONTROLS])})
    return out


class Collector:
    def __init__(self):
        self.viol, self.seen = [], {}

    def add(self, key, detail, replay=None, cap=2):
        self.seen[key] = self.seen.get(key, 0) + 1
        if self.seen[key] <= cap:
            self.viol.append(Violation(key=key, detail=detail, replay=replay))


def describe(c):
    return f"ops={[str(o) for o in c['plops']]} labels={c['labels']} device_wires={c['devwires']}"


def run(tier, seed):
    quick = tier == "quick"
    rng = random.Random(7000 + seed)
    V = Collector()
    cpu = {"t": time.process_time()}
    phase = {}

    def lap(name):
        phase[name] = round(time.process_time() - cpu["t"], 1)
        cpu["t"] = time.process_time()
    counts = {"gate_rejected": {}, "gate_failed": {}, "tableau_equal_model": 0, "tableau_other_generators": 0, "tableau_pairing_ok": 0,
              "tableau_validated": 0, "tableau_truncated": 0, "statevector_compared": 0, "statevector_phase_equal": 0,
              "exp_pm1": 0, "exp_zero": 0, "basis_state_preparations": 0, "device_executions": 0, "wide_cases": 0, "by_family": {}}

    # ------------------------------------------------------------ phase 0: which table gates does the device execute at all
    prefix = [mk("Hadamard", 0, [1]), mk("S", 0, [1]), mk("CNOT", 0, [1, 2]), mk("Hadamard", 0, [3]), mk("CZ", 0, [3, 2])]
    cases = []

    def new_case(fam, n, ops, labels, devwires, sv=1, meas=None, prep=None, fmode=True):
        plops = [decode_gate(g, M, labels) for g in ops]
        if prep is not None:       # BasisState preparation: in the models, X on the wires whose bit is 1
            plops = [qp.BasisState(np.array(prep), wires=labels)] + plops
            ops = [mk("PauliX", 0, [i + 1]) for i, b in enumerate(prep) if b] + ops
            counts["basis_state_preparations"] += 1
        c = {"fam": fam, "n": n, "ops": ops, "labels": labels, "devwires": devwires, "sv": sv, "meas": meas,
             "plops": plops, "rows": None, "alt": None, "out": {}, "m": 0, "fmode": fmode}
        cases.append(c)
        counts["by_family"][fam] = counts["by_family"].get(fam, 0) + 1
        return c

    def exec_case(c, dev=None):
        """tableau first (its stabilizer rows seed the measurement list of the random families), then the measurements on both device
        modes; one tape per mode, re-executed measurement by measurement after an exception so that failures are attributed precisely"""
        n, labels = c["n"], c["labels"]
        dev = dev or Dev(labels, c["devwires"])
        standard = labels == list(range(n))
        fixed = c["meas"] is not None
        keep = [qp.expval(qp.Z(labels[-1]))] if c["fam"] == "idle" else []      # keeps the idle wire in the tape
        merged = None
        try:
            if fixed:
                try:
                    merged, tape = run_tape(c["plops"], [qp.state()] + build_mps(c["meas"], labels), dev.t)
                    counts["device_executions"] += 1
                    tab = merged[0]
                except Exception:  # noqa: BLE001
                    merged = None
            if merged is None:
                out, tape = run_tape(c["plops"], [qp.state()] + keep, dev.t)
                counts["device_executions"] += 1
                tab = out[0] if keep else out
            order = list(tape.wires)
            tape_perm = [labels.index(w) for w in order] + [i for i in range(n) if labels[i] not in order]
            c["rows"], c["m"] = tableau_rows(tab, n, None if (standard or c["devwires"]) else tape_perm)
            if c["rows"] is None:
                V.add("state:tableau=True:malformed", f"tableau of shape {np.shape(tab)} for {n} wires: {describe(c)}", {"case": c["ops"]})
            c["tape_perm"] = tape_perm
            if c["devwires"] and tape_perm != list(range(n)):
                c["alt"], _ = tableau_rows(tab, n, tape_perm)      # the same tableau read in the tape's order of first use
        except Exception as e:  # noqa: BLE001
            c["exc"] = e
            return False
        if not fixed:
            c["meas"] = rand_meas(rng, n, c["sv"], group_words_of(c["rows"], n, rng))
        for mode, d in (("T", dev.t), ("F", dev.f)):
            if mode == "F" and not (c["sv"] and c["fmode"]):
                continue
            meas = list(c["meas"]) + ([("state",)] if mode == "F" else [])
            mps = build_mps(meas, labels)
            if mode == "T" and merged is not None:
                for j in range(len(meas)):
                    c["out"][(mode, j)] = ("ok", merged[j + 1])
                continue
            try:
                o, _ = run_tape(c["plops"], mps, d)
                counts["device_executions"] += 1
                o = o if len(mps) > 1 else (o,)
                for j in range(len(meas)):
                    c["out"][(mode, j)] = ("ok", o[j])
            except Exception:  # noqa: BLE001
                for j, mp in enumerate(mps):
                    try:
                        o, _ = run_tape(c["plops"], [mp] + keep, d)
                        counts["device_executions"] += 1
                        c["out"][(mode, j)] = ("ok", o[0] if keep else o)
                    except Exception as e:  # noqa: BLE001
                        c["out"][(mode, j)] = ("exc", e)
        return True

    working1, working2 = [], []
    for g, a in T1 + T2:
        two = (g, a) in T2
        gate = mk(g, a, [2, 3] if two else [2])
        c = new_case("single", 3, prefix + [gate, mk("Hadamard", 0, [2])], [0, 1, 2], False)
        ok = exec_case(c)
        if ok:
            (working2 if two else working1).append((g, a))
        else:
            e = c["exc"]
            cases.pop()
            counts["by_family"]["single"] -= 1
            if isinstance(e, qp.exceptions.DeviceError):
                counts["gate_rejected"][gname(gate)] = str(e)[:120]
            else:
                counts["gate_failed"][gname(gate)] = f"{type(e).__name__}: {e}"[:160]
                V.add(f"gate:{gname(gate)}:exception:{type(e).__name__}",
                      f"Clifford gate {gname(gate)} cannot be executed: {type(e).__name__}: {e} (circuit H(0) S(0) CNOT(0,1) H(2) CZ(2,1) {gname(gate)} H(1), qp.state())",
                      {"gate": gate})
    lap("single")
    if len(working1) < 4 or len(working2) < 2:
        raise lib.MachineryError(f"too few gates execute on default.clifford to build circuits: {working1} {working2}")

    def rgate(n):
        r = rng.random()
        if r < 0.04:
            return rec("GlobalPhase", [1], [rng.randrange(8)])
        if n >= 2 and r < 0.5:
            g, a = rng.choice(working2)
            return mk(g, a, rng.sample(range(1, n + 1), 2))
        g, a = rng.choice(working1)
        return mk(g, a, [rng.randint(1, n)])

    def touch_all(ops, n):
        """make every wire carry a gate (idle trailing wires are exercised by the dedicated family)"""
        used = {w for g in ops if g["g"] != "GlobalPhase" for w in g["w"]}
        return ops + [mk("Identity" if ("Identity", 0) in working1 else working1[0][0], 0, [w]) for w in range(1, n + 1) if w not in used]

    # ------------------------------------------------------------ exhaustive: all circuits of <= 2 table gates on two wires
    tg = [g for g in table_gates(2) if (g["g"], 1 if g["mods"] else 0) in working1 + working2]
    pre2 = [mk("Hadamard", 0, [1]), mk("S", 0, [1]), mk("Hadamard", 0, [2])]
    ALL2 = [("expval", list(p)) for p in itertools.product(range(4), repeat=2) if any(p)] + [("probs", [1, 2]), ("probs", [2, 1]), ("probs", [2])]
    seqs = [()] + [(g,) for g in tg] + list(itertools.product(tg, tg))
    shared = Dev([0, 1], True)
    for i, sq in enumerate(seqs):
        variants = [i % 2] if quick else [0, 1]
        for v in variants:
            c = new_case("pairs", 2, (pre2 if v else []) + [dict(g) for g in sq], [0, 1], True, meas=ALL2 if (quick and i % 4 == 0) or not quick
                         else [ALL2[(i + k) % 15] for k in (0, 4, 9)] + [ALL2[15 + i % 3]], fmode=(not quick) or i % 3 == 0)
            if not exec_case(c, shared):
                V.add(f"exception:{type(c['exc']).__name__}", f"{type(c['exc']).__name__}: {c['exc']} on {describe(c)}", {"ops": c["ops"]})
                cases.pop()
    lap("pairs")
    # ------------------------------------------------------------ seeded random circuits
    n_small, n_wide, n_idle = (150, 40, 8) if quick else (2500, 500, 40)
    n_lc = 60 if quick else 600            # random cases that also get finite-shot linear combinations
    rng_lc = random.Random(7100 + seed)
    for i in range(n_small):
        n = rng.choice([1, 2, 2, 3, 3, 3, 4, 4, 5, 5])
        ops = touch_all([rgate(n) for _ in range(rng.randint(1, 14))], n)
        mode = i % 3
        labels = list(range(n)) if mode == 0 else rng.choice(devsim.LABEL_TABLES[1:])[:n]
        c = new_case("random", n, ops, labels, devwires=(rng.random() < 0.5) if mode == 0 else (mode == 1),
                     prep=[rng.randint(0, 1) for _ in range(n)] if rng.random() < 0.2 else None)
        if not exec_case(c):
            V.add(f"exception:{type(c['exc']).__name__}", f"{type(c['exc']).__name__}: {c['exc']} on {describe(c)}", {"ops": c["ops"]})
            cases.pop()
        elif i < n_lc:
            c["lc"] = rand_lincombs(rng_lc, n, group_words_of(c["rows"], n, rng_lc))
    for i in range(n_wide):
        n = rng.randint(6, 10)
        ops = touch_all([rgate(n) for _ in range(rng.randint(10, 40))], n)
        labels = list(range(n)) if i % 2 == 0 else devsim.LABEL_TABLES[1 + i % 2][:n]
        c = new_case("wide", n, ops, labels, devwires=bool(i % 2), sv=0)
        counts["wide_cases"] += 1
        if not exec_case(c):
            V.add(f"exception:{type(c['exc']).__name__}", f"{type(c['exc']).__name__}: {c['exc']} on {describe(c)}", {"ops": c["ops"]})
            cases.pop()
    for i in range(n_idle):           # trailing wires without a gate (measured only); integer labels, no device wires
        n = rng.choice([2, 3, 3, 4])
        k = rng.randint(1, n - 1)
        ops = touch_all([rgate(k) for _ in range(rng.randint(1, 6))], k)
        c = new_case("idle", n, ops, list(range(n)), False,
                     meas=[("expval", [0] * (n - 1) + [3]), ("expval", rand_word(rng, n)), ("probs", [n, 1]), ("probs", list(range(1, n + 1)))])
        if not exec_case(c):
            V.add(f"idle-trailing-wire:exception:{type(c['exc']).__name__}", f"{type(c['exc']).__name__}: {c['exc']} on {describe(c)}", {"ops": c["ops"]})
            cases.pop()

    lap("random+wide+idle")
    # ------------------------------------------------------------ TLC: both models + validation of the recorded tableaus
    tcases, owner = [], []
    for ci, c in enumerate(cases):
        req, idx = requests(c["meas"] + [("state",)], c["sv"])
        c["idx"] = idx
        tcases.append({"n": c["n"], "sv": c["sv"], "ops": c["ops"], "meas": req or [{"t": "expval", "pw": [3] + [0] * (c["n"] - 1), "w": []}],
                       "dev": {"has": 1 if c["rows"] else 0, "rows": c["rows"] or []}, "lc": enc_lc(c.get("lc", []))})
        owner.append((ci, "main"))
        if c["alt"] is not None and c["alt"] != c["rows"]:
            tcases.append({"n": c["n"], "sv": 0, "ops": c["ops"], "meas": [{"t": "expval", "pw": [3] + [0] * (c["n"] - 1), "w": []}],
                           "dev": {"has": 1, "rows": c["alt"]}, "lc": []})
            owner.append((ci, "alt"))
    first_neg = len(tcases)
    tcases += neg_cases()
    res, tr = run_trace(tcases, "trace")
    # negative / positive controls of the trace specification
    nneg = 0
    for k, (name, _, want, eq) in enumerate(NEG):
        got = res[first_neg + k]
        if got["dev"] != want or (want == "ok" and got["flags"]["eq"] != eq) or got["self"] != "ok":
            raise lib.MachineryError(f"trace control '{name}': expected verdict {want} (eq={eq}), TLC said {got['dev']} {got['flags']} self={got['self']}")
        nneg += want != "ok"
        for (_, num, loose, det), g in zip(LC_CONTROLS, got["lc"]):
            if (g["num"], g["loose"], g["det"]) != (num, loose, det):
                raise lib.MachineryError(f"finite-shot control: expected {(num, loose, det)}, TLC said {g}")
    alt_ok = {owner[k][0]: res[k]["dev"] for k in range(first_neg) if owner[k][1] == "alt"}
    n_cmp, nontriv, samples, n_self = 0, set(), [], 0
    for k in range(first_neg):
        ci, kind = owner[k]
        if kind != "main":
            continue
        c, r = cases[ci], res[k]
        n, fam = c["n"], c["fam"]
        if r["self"] != "ok":
            raise lib.MachineryError(f"the tableau model and the exact semantics disagree ({r['self']}) on {c['ops']}: oracle error")
        n_self += 1
        tagw = "custom-labels" if c["labels"] != list(range(n)) else "int-labels"
        ctx = f"{fam}:{tagw}:{'device-wires' if c['devwires'] else 'no-device-wires'}"
        # ---- TRACE verdict on the recorded tableau
        if c["rows"] is not None:
            counts["tableau_validated"] += 1
            if c["m"] < n:
                counts["tableau_truncated"] += 1
                V.add("state:tableau=True:idle-trailing-wires-dropped",
                      f"qp.state() returned a tableau on {c['m']} qubits for a circuit on {n} wires ({describe(c)}): the wires after the last gate-carrying wire are missing",
                      {"ops": c["ops"], "labels": c["labels"]})
            if r["dev"] != "ok":
                if alt_ok.get(ci) == "ok":
                    V.add("state:tableau=True:device-wire-order-ignored",
                          f"the tableau is laid out in the order of first use of the wires in the tape, not in the order of the device wires: {describe(c)}",
                          {"ops": c["ops"], "labels": c["labels"], "rows": c["rows"]})
                else:
                    V.add(f"state:tableau=True:{r['dev']}", f"Trace_Clifford rejects the tableau returned by qp.state() ({r['dev']}): {describe(c)} rows={c['rows']}",
                          {"ops": c["ops"], "labels": c["labels"], "rows": c["rows"]})
            else:
                counts["tableau_equal_model"] += r["flags"]["eq"]
                counts["tableau_other_generators"] += not r["flags"]["eq"]
                counts["tableau_pairing_ok"] += r["flags"]["pairing"]
        # ---- REPLAY of the measurements
        meas_all = c["meas"] + [("state",)]
        good_case = True
        for (mode, j), (st, o) in sorted(c["out"].items()):
            m = meas_all[j]
            kind_m = m[0]
            tag = f"{kind_m}:tableau={'True' if mode == 'T' else 'False'}"
            idle = ":idle-trailing-wire" if fam == "idle" else ""
            if st == "exc":
                good_case = False
                V.add(f"{tag}{idle}:exception:{type(o).__name__}", f"{type(o).__name__}: {o} for {m} on {describe(c)}",
                      {"ops": c["ops"], "labels": c["labels"], "measurement": list(m)})
                continue
            p0 = c["idx"][j]
            if p0 is None:
                continue
            n_cmp += 1
            tol = 1e-8 if mode == "T" else 2e-6           # tableau=False goes through stim's float32 state vector
            if kind_m in ("expval", "var"):
                e = r["meas"][p0]["tb"]
                exact = sc(r["meas"][p0]["v"][0]).real if c["sv"] else e
                if abs(exact - e) > 1e-12:
                    raise lib.MachineryError("emitted tableau value and exact value differ")
                counts["exp_pm1" if e else "exp_zero"] += 1
                exp = float(e) if kind_m == "expval" else 1.0 - e * e
            elif kind_m == "ham":
                exp = sum(co * r["meas"][p0 + t]["tb"] for t, (co, _) in enumerate(m[1]))
            elif kind_m == "probs":
                exp = np.array([sc(x).real for x in r["meas"][p0]["v"]])
            elif kind_m == "proj":
                pv = np.array([sc(x).real for x in r["meas"][p0]["v"]])
                exp = pv[int("".join(map(str, m[2])), 2)]
            else:
                exp = np.array([sc(x) for x in r["meas"][p0]["v"]])
            got = np.asarray(o)
            if kind_m == "state":
                counts["statevector_compared"] += 1
                def in_tape_order(v):
                    # position j of the tape's order of first use holds the wire at position tape_perm[j]
                    return np.transpose(v.reshape([2] * n), c["tape_perm"]).reshape(-1)
                if not c["devwires"] and tagw == "custom-labels":
                    exp = in_tape_order(exp)       # without device wires the state is indexed in the tape's wire order (PennyLane convention)
                eqs = lambda a, b: a.shape == b.shape and abs(abs(np.vdot(b, a)) - 1.0) < 1e-5 and abs(np.linalg.norm(a) - 1) < 1e-5
                same = eqs(got, exp)
                counts["statevector_phase_equal"] += bool(same and np.allclose(got, exp, atol=1e-5))
                if not same:
                    good_case = False
                    sub = "shape" if got.shape != exp.shape else "mismatch"
                    if sub == "mismatch" and c["devwires"] and eqs(got, in_tape_order(exp)):
                        sub = "device-wire-order-ignored"
                    V.add(f"{tag}{idle}:{sub}", f"state vector {np.round(got, 4).tolist()} vs exact {np.round(exp, 4).tolist()} (up to a global phase) on {describe(c)}",
                          {"ops": c["ops"], "labels": c["labels"]})
                continue
            if not (got.shape == np.shape(exp) and np.allclose(got, exp, atol=tol, rtol=0)):
                good_case = False
                extra = ""
                if kind_m == "probs" and got.shape == np.shape(exp):
                    extra = ":unnormalised" if abs(float(np.sum(got)) - 1.0) > 1e-6 else ":normalised"
                V.add(f"{tag}:mismatch{extra}", f"{m}: got {np.round(got, 6).tolist()} expected {np.round(exp, 6).tolist()} on {describe(c)} [{ctx}]",
                      {"ops": c["ops"], "labels": c["labels"], "measurement": list(m), "device_wires": c["devwires"]})
        if good_case and len(c["ops"]) >= 2:
            nontriv.add(json.dumps(c["ops"], sort_keys=True))
            if fam not in {x["family"] for x in samples} and (len(c["ops"]) >= 6 or fam == "pairs"):
                samples.append({"family": fam, "n": n, "ops": [str(o) for o in c["plops"]], "measurements": [str(x) for x in c["meas"][:4]],
                                "model_tableau_stabilizers": r["tab"][n:], "device_rows_equal_model": r["flags"]["eq"]})
    # comparator negative control
    if np.allclose(np.array([0.5, 0.5]), np.array([0.5, 0.5 + 1e-5]), atol=2e-6, rtol=0):
        raise lib.MachineryError("negative control accepted")

    # ------------------------------------------------------------ non-Clifford / unsupported input: rejected or exact
    lap("compare")
    stats2, nc = noncliff(V, counts, seed)
    lap("nonclifford")
    # ------------------------------------------------------------ samples (statistical, partial)
    n_stat = sampling(V, cases, res, owner, first_neg, rng, seed, quick)
    lap("sampling")
    lc_stats = shots_lincomb(V, cases, res, owner, first_neg, seed)
    n_stat += lc_stats["evaluations"]
    lap("shots-lincomb")
    if lc_stats["deterministic_multiterm_expval"] < 20 or lc_stats["deterministic_var"] < 10 or lc_stats["statistical_expval"] < 10:
        raise lib.MachineryError(f"vacuous finite-shot linear combinations: {lc_stats}")

    if counts["exp_pm1"] < 50 or counts["tableau_validated"] < 100 or counts["wide_cases"] < 10:
        raise lib.MachineryError(f"vacuous: {counts}")
    cov = {"states": tr.distinct + stats2["distinct"], "transitions": tr.generated + stats2["generated"],
           "traces_validated_against_impl": counts["tableau_validated"], "evaluations": n_cmp + n_stat + nc,
           "distinct_nontrivial": len(nontriv),
           "rule": "all circuits of <= 2 table gates on 2 wires (two input states) + every table gate in a fixed 3-wire context + seeded random "
                   "Clifford circuits on 1-5 wires (exact state vector) and 6-10 wires (tableau model), integer / custom labels, with / without "
                   "device wires; non-trivial = distinct circuit of >= 2 gates whose every compared output (tableau, expectations, variances, "
                   "Hamiltonians, probabilities, projectors, state vector) agreed",
           "samples": samples, "exhaustive": True, "model_self_checks_ok": n_self, "negative_controls_rejected": nneg + 1,
           "statistical_tests": n_stat, "nonclifford_cases": nc, "tlc_wall_s": round(tr.wall_s, 1), "python_cpu_s_by_phase": phase, "ring_level_M": M, **counts,
           "finite_shot_linear_combinations": lc_stats,
           "violation_counts_by_key": V.seen}
    return CheckResult(coverage=cov, violations=V.viol, assumptions=[
        "exact comparison of tableaus (integers, decided by TLC); expectation values at 1e-8 (tableau=True) / 2e-6 (tableau=False: stim returns a "
        "float32 state vector); state vectors are compared up to a global phase",
        "a gate of the table that the device rejects with DeviceError counts as 'rejected' (documented policy), any other exception is a violation",
        "sampling clause: G-test at significance 1e-9 with one independent retry at 10x shots (partial)",
        "finite-shot expval of a linear combination with fair-coin terms: |estimate - exact| <= 6.5 * sum|c_i| / sqrt(shots) over those terms "
        "(valid for any correlation between the terms' samples), one retry at 10x shots; with only deterministic terms: equality at 1e-8, var = 0",
        "qp.probs() without wires is not exercised (its wire order without device wires is a convention, not part of the statement)"])


# ------------------------------------------------------------------------------------------------- non-Clifford input
def noncliff(V, counts, seed):
    M4 = 4
    g = lambda name, w, p=(), mods=(), x=(): rec(name, w, p, x, mods=mods)
    items = [  # (gate record at M = 4, is the unitary Clifford?)
        (g("T", [1]), False), (g("T", [1], mods=ADJ), False), (g("RX", [1], [1]), False), (g("RZ", [2], [3]), False), (g("PhaseShift", [1], [1]), False),
        (g("RY", [2], [1]), False), (g("Toffoli", [1, 2, 3]), False), (g("CCZ", [1, 2, 3]), False), (g("CSWAP", [1, 2, 3]), False), (g("CH", [1, 2]), False),
        (g("SISWAP", [1, 2]), False), (g("CRZ", [1, 2], [2]), False), (g("IsingXX", [1, 2], [1]), False), (g("ControlledPhaseShift", [1, 2], [2]), False),
        (g("T", [1], mods=[{"t": "pow", "z": 3}]), False), (g("MultiRZ", [1, 2, 3], [1]), False),
        # Clifford unitaries outside the table: reject or simulate exactly
        (g("ECR", [1, 2]), True), (g("RX", [1], [2]), True), (g("RZ", [2], [2]), True), (g("RY", [1], [6]), True), (g("PhaseShift", [1], [2]), True),
        (g("S", [1], mods=[{"t": "pow", "z": 2}]), True), (g("S", [1], mods=[{"t": "pow", "z": 3}]), True), (g("T", [1], mods=[{"t": "pow", "z": 2}]), True),
        (g("SX", [1], mods=[{"t": "pow", "z": 2}]), True), (g("IsingZZ", [1, 2], [2]), True), (g("CRZ", [1, 2], [4]), True),
        (g("PauliZ", [1, 2], mods=[{"t": "ctrl", "cv": [1]}]), True), (g("PauliX", [1, 2], mods=[{"t": "ctrl", "cv": [0]}]), True),
        (g("PauliRot", [1, 2], [2], x=[1, 2]), True), (g("MultiRZ", [1, 2], [2]), True), (g("U2", [1], [2, 2]), True),
    ]
    pre = [g("Hadamard", [1]), g("S", [1]), g("CNOT", [1, 2]), g("Hadamard", [3]), g("CZ", [3, 2])]
    post = [g("Hadamard", [2]), g("CNOT", [2, 1])]
    words = [[1, 2, 0], [3, 3, 0], [1, 0, 3], [2, 2, 1], [0, 3, 1]]
    tc = [{"n": 3, "ops": pre + [it[0]] + post, "meas": [{"t": "expval", "pw": w} for w in words] + [{"t": "probs", "w": [3, 1]}]} for it in items]
    res, stats = tapeeval.evaluate("C70", tc, M4, name="noncliff")
    dev = qp.device("default.clifford")
    mps = [qp.expval(devsim.word_op(w, [0, 1, 2])) for w in words] + [qp.probs(wires=[2, 0])]
    out = {"rejected": {}, "simulated_exactly": []}
    for (gr, cliff), r in zip(items, res):
        ops = [decode_gate(x, M4) for x in pre + [gr] + post]
        name = str(ops[len(pre)])
        try:
            o, _ = run_tape(ops, mps, dev)
        except Exception as e:  # noqa: BLE001 - any exception is a rejection; the class is recorded
            out["rejected"][name] = type(e).__name__
            continue
        ok = all(np.allclose(np.asarray(a), np.asarray(b), atol=1e-8, rtol=0) for a, b in zip(o, r["meas"]))
        if ok:
            out["simulated_exactly"].append(name)
        else:
            V.add(f"{'unsupported-clifford' if cliff else 'non-clifford'}:silently-wrong:{gr['g']}",
                  f"{name} was executed without an error but the results differ from the exact ones: got {[np.round(np.asarray(a), 6).tolist() for a in o]} "
                  f"expected {[np.round(np.asarray(b), 6).tolist() for b in r['meas']]}", {"gate": gr})
    counts["unsupported_input"] = out
    if not out["rejected"]:
        raise lib.MachineryError("vacuous: no non-Clifford input was rejected")
    return stats, len(items)


# ------------------------------------------------------------------------------------------------- finite-shot linear combinations
PAULI = {0: np.eye(2), 1: np.array([[0, 1], [1, 0]]), 2: np.array([[0, -1j], [1j, 0]]), 3: np.diag([1.0, -1.0])}


def lc_observable(form, terms, labels):
    co = [q / 4 for q, _ in terms]
    if form == "hermitian":
        mat = 0
        for x, (_, pw) in zip(co, terms):
            k = np.array([[1.0]])
            for l in pw:
                k = np.kron(k, PAULI[l])
            mat = mat + x * k
        return qp.Hermitian(mat, wires=labels)
    obs = [devsim.word_op(pw, labels) for _, pw in terms]
    return qp.Hamiltonian(co, obs) if form == "hamiltonian" else qp.dot(co, obs)


def shots_lincomb(V, cases, res, owner, first_neg, seed):
    """expval / var with shots of multi-term observables against TLC's decision (res[k]['lc'])"""
    st = {"evaluations": 0, "deterministic_multiterm_expval": 0, "deterministic_var": 0, "statistical_expval": 0, "retries": 0,
          "single_term": 0, "by_form": {}, "negative_control": 0}
    shots, z = 2000, 6.5
    for k in range(first_neg):
        ci, kind = owner[k]
        c = cases[ci]
        if kind != "main" or not c.get("lc"):
            continue
        labels, n = c["labels"], c["n"]
        for li, (terms, d) in enumerate(zip(c["lc"], res[k]["lc"])):
            if d["nterms"] != len(terms):
                raise lib.MachineryError("linear combination lost terms on the way through TLC")
            exact, loose, det = d["num"] / 4, d["loose"] / 4, d["det"]
            forms = ["sum", "hamiltonian", "hermitian" if n <= 3 else "sum"]
            form = forms[(ci + li) % 3]
            obs_txt = " + ".join(f"{q / 4:g}*{''.join('IXYZ'[l] for l in pw)}" for q, pw in terms)
            ctx = f"{obs_txt} ({form}) on {describe(c)}"
            rp = {"ops": c["ops"], "labels": labels, "terms": [[q, pw] for q, pw in terms], "form": form, "shots": shots}

            def once(mp, sd, sh):
                dev = qp.device("default.clifford", seed=sd, **({"wires": labels} if c["devwires"] else {}))
                o, _ = run_tape(c["plops"], [mp(lc_observable(form, terms, labels))], dev, shots=sh)
                return float(np.real(np.asarray(o)))
            for mpname, mp in (("expval", qp.expval), ("var", qp.var)):
                if mpname == "var" and (not det or form == "hermitian"):
                    continue          # the exact variance of a non-eigenstate is not decided by the model; Hermitian**2 has no Pauli form
                want = exact if mpname == "expval" else 0.0
                cls = "deterministic" if det else "statistical"
                try:
                    got = once(mp, 3000 + seed + 31 * ci + li, shots)
                except Exception as e:  # noqa: BLE001
                    V.add(f"shots:{mpname}-lincomb:{form}:exception:{type(e).__name__}", f"{type(e).__name__}: {e} for {ctx}", rp)
                    continue
                st["evaluations"] += 1
                st["by_form"][form] = st["by_form"].get(form, 0) + 1
                bound = lambda sh: 1e-8 + z * loose / np.sqrt(sh)
                bad = not abs(got - want) <= bound(shots)
                if bad and not det:
                    st["retries"] += 1
                    got = once(mp, 880001 + seed + 31 * ci + li, 10 * shots)
                    bad = not abs(got - want) <= bound(10 * shots)
                if len(terms) < 2:
                    st["single_term"] += 1
                elif det:
                    st["deterministic_multiterm_expval" if mpname == "expval" else "deterministic_var"] += 1
                else:
                    st["statistical_expval"] += 1
                if det and not st["negative_control"]:
                    # comparator control: the value with the sign of one term flipped must be rejected
                    if abs((want + 2 * abs(terms[0][0]) / 4) - want) <= bound(shots):
                        raise lib.MachineryError("negative control accepted (finite-shot linear combination)")
                    st["negative_control"] = 1
                if bad:
                    V.add(f"shots:{mpname}-lincomb:{cls}-mismatch",
                          f"{mpname} with shots of {ctx}: got {got:.6f}, exact {want:.6f} "
                          + ("(every term is +-(a stabilizer): every shot is deterministic)" if det else f"(tolerance {bound(10 * shots):.4f} at {10 * shots} shots)"), rp)
    return st


# ------------------------------------------------------------------------------------------------- sampling (statistical)
def sampling(V, cases, res, owner, first_neg, rng, seed, quick):
    shots = 4000
    pool = [(cases[owner[k][0]], res[k]) for k in range(first_neg) if owner[k][1] == "main" and cases[owner[k][0]]["fam"] == "random"
            and cases[owner[k][0]]["n"] <= 4 and any(m[0] == "probs" for m in cases[owner[k][0]]["meas"])]
    pool = pool[:14 if quick else 150]
    n_stat = 0
    for pi, (c, r) in enumerate(pool):
        labels = c["labels"]
        for j, m in enumerate(c["meas"]):
            p0 = c["idx"][j]
            if m[0] == "probs":
                exp = np.array([sc(x).real for x in r["meas"][p0]["v"]])
                ws = [labels[w - 1] for w in m[1]]
                kinds = [("sample", lambda: qp.sample(wires=ws)), ("counts", lambda: qp.counts(wires=ws)), ("probs", lambda: qp.probs(wires=ws))]
            elif m[0] == "expval" and sum(1 for x in m[1] if x) <= 3:
                e = r["meas"][p0]["tb"]
                exp = np.array([(1 + e) / 2, (1 - e) / 2])
                kinds = [("expval", lambda: qp.expval(devsim.word_op(m[1], labels))), ("sample-obs", lambda: qp.sample(devsim.word_op(m[1], labels)))]
            else:
                continue
            kname, mk_mp = kinds[(pi + j) % len(kinds)]

            def once(sd, sh):
                dev = qp.device("default.clifford", seed=sd, **({"wires": labels} if c["devwires"] else {}))
                o, _ = run_tape(c["plops"], [mk_mp()], dev, shots=sh)
                k = len(exp)
                if kname == "sample":
                    a = np.asarray(o).reshape(sh, -1)
                    if not np.all(np.isin(a, (0, 1))):
                        return None, "sample-not-a-bitstring"
                    idx = a.dot(1 << np.arange(a.shape[1])[::-1])
                    return np.bincount(idx, minlength=k).astype(float), None
                if kname == "counts":
                    cnt = np.zeros(k)
                    for key, v in o.items():
                        if len(str(key)) != len(m[1]) or set(str(key)) - {"0", "1"}:
                            return None, "counts-key-not-a-bitstring"
                        cnt[int(str(key), 2)] += int(v)
                    return cnt, None
                if kname == "probs":
                    return np.asarray(o, dtype=float) * sh, None
                if kname == "expval":
                    return np.array([(1 + float(o)) / 2, (1 - float(o)) / 2]) * sh, None
                a = np.asarray(o, dtype=float).reshape(-1)
                if not np.all(np.isin(a, (-1.0, 1.0))):
                    return None, "sample-not-an-eigenvalue"
                return np.array([np.sum(a == 1.0), np.sum(a == -1.0)], dtype=float), None
            try:
                cnt, bad = once(1000 + seed + pi * 17 + j, shots)
            except Exception as e:  # noqa: BLE001
                V.add(f"shots:{kname}:exception:{type(e).__name__}", f"{type(e).__name__}: {e} for {m} on {describe(c)}", {"ops": c["ops"], "measurement": list(m)})
                continue
            n_stat += 1
            if bad:
                V.add(f"shots:{kname}:{bad}", f"{m} on {describe(c)}", {"ops": c["ops"], "measurement": list(m)})
                continue
            if abs(cnt.sum() - shots) > 1e-6:
                V.add(f"shots:{kname}:does-not-total-the-shots", f"{cnt.sum()} != {shots} for {m} on {describe(c)}", {"ops": c["ops"], "measurement": list(m)})
                continue
            gs, df = gtest(cnt, exp, shots)
            if chi2_sf(gs, df) < 1e-9:
                cnt2, _ = once(990001 + seed + pi * 17 + j, 10 * shots)
                g2, df2 = gtest(cnt2, exp, 10 * shots)
                if chi2_sf(g2, df2) < 1e-9:
                    V.add(f"shots:{kname}:distribution", f"{kname} of {m}: empirical {(cnt2 / cnt2.sum()).round(4).tolist()} vs exact {np.round(exp, 4).tolist()} on {describe(c)}",
                          {"ops": c["ops"], "labels": labels, "measurement": list(m), "shots": 10 * shots})
    return n_stat
