"""C47 Resource estimation composes additively (pennylane.estimator).

(M) Estimator.tla is the estimator as a state machine: Grab / Free (the documented semantics of WireResourceManager.grab_zeroed /
    free_wires incl. tight_budget) and CountGate, with ghost fields that make "accounts for every allocation" a state invariant; terms
    (leaf, composite, adjoint, controlled, pow, prod) with their documented decompositions; Events flattens a workflow into the
    Grab/Free/CountGate history; DenCount is the independent denotational count.  EstimatorGen.tla is model-checked exhaustively
    (invariants NonNeg, TotalGeAlgo, Accounted, Additive, TermLaws) in two modes: all call histories on a manager, and all workflows of
    <= MaxLen terms over a term set x budgets x gate sets, executed one event per TLC step.
(R) spec -> code: every emitted manager history is replayed on the real WireResourceManager (state compared after every call); every
    emitted workflow is built from harness-defined ResourceOperator classes whose decompositions are the spec's Lib table, wrapped in the
    real qre.Adjoint / Controlled / Pow / Prod, and run through qre.estimate; the reported gate counts are compared with the spec's.
(T) code -> spec: every estimate run (the replayed ones and seeded workflows of real library operators) is recorded with the
    grab_zeroed / free_wires calls it made; Trace_Estimator.tla re-executes the calls with the spec's actions and decides: no negative
    bookkeeping, reported wires = replay of every allocation, total = sum >= algorithmic wires.  Gate counts of library workflows are
    recorded together with the counts of their parts and TLC decides additivity / repetition; Resources.add_* / multiply_* likewise."""
import collections
import json
import os
import random
import time

import pennylane.estimator as qre
from pennylane.estimator import CompressedResourceOp, GateCount

from .. import lib
from ..lib import CheckResult, Violation

# ------------------------------------------------------------------------------------------------ the operator library of the model
LEAVES = ["G1", "G2", "G3"]
LIB = {"A": [("alloc", 2), ("gate", "G1", 3), ("gate", "B", 2), ("free", 2)],           # balanced: releases what it allocates
       "B": [("alloc", 1), ("gate", "G2", 2)],                                          # keeps one wire (any state) per occurrence
       "C": [("alloc", 2), ("gate", "G1", 1), ("free", 1), ("gate", "A", 1), ("gate", "G3", 2)],
       "D": [("free", 1), ("gate", "G3", 1), ("alloc", 1)],                             # releases first (needs an any-state wire)
       "E": [("gate", "B", 1), ("gate", "C", 2), ("free", 2)]}                          # releases what its parts kept
WIDTH = {"G1": 1, "G2": 1, "G3": 2, "A": 2, "B": 1, "C": 3, "D": 2, "E": 3}


class LeafReached(Exception):
    """a leaf was asked for a decomposition: the gate set handed to estimate() was not closed under the wrappers used"""


def _make_class(name):
    acts = LIB.get(name)

    class Op(qre.ResourceOperator):
        num_wires = WIDTH[name]

        @property
        def resource_params(self):
            return {}

        @classmethod
        def resource_rep(cls):
            return CompressedResourceOp(cls, cls.num_wires, {})

        @classmethod
        def resource_decomp(cls):
            if acts is None:
                raise LeafReached(name)
            out = []
            for a in acts:
                if a[0] == "gate":
                    out.append(GateCount(CLS[a[1]].resource_rep(), a[2]))
                else:
                    out.append((qre.Allocate if a[0] == "alloc" else qre.Deallocate)(a[1]))
            return out
    Op.__name__ = Op.__qualname__ = name
    return Op


CLS = {}
for _n in WIDTH:
    CLS[_n] = _make_class(_n)


def _bare(n):
    return f'Leaf("{n}")' if n in LEAVES else f'Comp("{n}")'


def lib_tla():
    def act(a):
        return f"Gate({_bare(a[1])}, {a[2]})" if a[0] == "gate" else ("Alloc" if a[0] == "alloc" else "Dealloc") + f"({a[1]})"
    return "[" + ", ".join(f"{c} |-> <<" + ", ".join(act(a) for a in acts) + ">>" for c, acts in LIB.items()) + "]"


def terms_tla(tier):
    A, B, C, D, E, G1 = _bare("A"), _bare("B"), _bare("C"), _bare("D"), _bare("E"), _bare("G1")
    base = [G1, A, B, C, D, E]
    t = list(base)
    t += [f"Adj({b})" for b in (A, B, C, D)] + [f"Ctrl({C}, 1)", f"Pow({B}, 3)", f"Pow({C}, 2)"]
    t += [f"Adj(Adj({C}))", f"Ctrl(Ctrl({A}, 1), 2)", f"Adj(Pow({C}, 2))", f"Ctrl(Adj({C}), 2)", f"Pow(Pow({B}, 2), 2)",
          f"Prod(<< <<{A}, 2>>, <<{G1}, 1>> >>)", f"Adj(Prod(<< <<{C}, 1>>, <<{B}, 2>> >>))",
          f"Ctrl(Prod(<< <<{D}, 2>>, <<{A}, 1>> >>), 1)", f"Pow(Prod(<< <<{A}, 1>>, <<{B}, 1>> >>), 2)", f"Adj(Ctrl(Adj({E}), 1))"]
    if tier != "quick":
        t += [f"Adj({b})" for b in (G1, E)] + [f"Ctrl({b}, 1)" for b in (A, B)] + [f"Pow({A}, 2)", f"Pow({A}, 3)", f"Pow({B}, 2)", f"Pow({C}, 3)"]
        t += [f"Ctrl({b}, 2)" for b in (D, E)] + [f"Pow({E}, 2)", f"Adj(Ctrl(Pow({C}, 2), 1))", f"Pow(Adj({B}), 3)",
                                                  f"Prod(<< <<{B}, 1>>, <<{C}, 3>> >>)",
                                                  f"Prod(<< <<Adj({C}), 1>>, <<Ctrl({B}, 1), 2>>, <<{E}, 1>> >>)"]
    return t


def wf_cfgs(tier):
    budgets = [(0, 0, "FALSE"), (3, 1, "FALSE"), (9, 2, "TRUE"), (1, 0, "TRUE")]
    gss = ["{}", '{"A"}'] if tier == "quick" else ["{}", '{"A"}', '{"B", "C"}']
    return "{" + ", ".join(f"[z |-> {z}, a |-> {a}, algo |-> 0, tight |-> {t}, gs |-> {gs}]" for z, a, t in budgets for gs in gss) + "}"


def wm_cfgs(tier):
    zs = [(0, 0, "FALSE"), (2, 1, "TRUE"), (2, 0, "FALSE"), (0, 1, "TRUE")] if tier == "quick" else \
        [(z, a, t) for z in (0, 2) for a in (0, 1) for t in ("TRUE", "FALSE")]
    return "{" + ", ".join(f"[z |-> {z}, a |-> {a}, algo |-> 3, tight |-> {t}, gs |-> {{}}]" for z, a, t in zs) + "}"


def build(t):
    """JSON term -> real resource operator"""
    k = t["t"]
    if k in ("leaf", "comp"):
        return CLS[t["g"]]()
    kids = t["kids"]
    if k == "adj":
        return qre.Adjoint(build(kids[0][0]))
    if k == "ctrl":
        return qre.Controlled(build(kids[0][0]), t["n"], 0)
    if k == "pow":
        return qre.Pow(build(kids[0][0]), t["n"])
    return qre.Prod([(build(x), c) for x, c in kids])


def term_str(t):
    k = t["t"]
    if k in ("leaf", "comp"):
        return t["g"]
    if k == "prod":
        return "Prod(" + ",".join(f"{term_str(x)}x{c}" for x, c in t["kids"]) + ")"
    b = term_str(t["kids"][0][0])
    return {"adj": f"Adj({b})", "ctrl": f"Ctrl({b},{t['n']})", "pow": f"Pow({b},{t['n']})"}[k]


def wrapper_closure(depth=3, max_ctrl=6):
    """names of every adjoint / controlled wrapper stack over a leaf (these are counted, not decomposed)"""
    names = set()
    level = [CLS[g].resource_rep() for g in LEAVES]
    for _ in range(depth + 1):
        names.update(c.name for c in level)
        nxt = []
        for c in level:
            nxt.append(qre.Adjoint.resource_rep(c))
            nxt.extend(qre.Controlled.resource_rep(c, nc, 0) for nc in range(1, max_ctrl + 1))
        level = nxt
    return names


def base_of(cmpr):
    """strip adjoint / controlled wrappers of a reported gate (structurally, not by name)"""
    while cmpr.op_type in (qre.Adjoint, qre.Controlled):
        cmpr = cmpr.params["base_cmpr_op"]
    return cmpr.op_type.__name__


# ------------------------------------------------------------------------------------------------ recording
class Recorder:
    """wraps WireResourceManager.grab_zeroed / free_wires: one record per call with the bookkeeping read after the call"""

    def __init__(self):
        self.calls = None
        self._orig = None

    def __enter__(self):
        W = qre.WireResourceManager
        self._orig = (W.grab_zeroed, W.free_wires)
        og, of, rec = W.grab_zeroed, W.free_wires, self

        def wrap(op, fn):
            def method(mgr, num_wires):
                exc = True
                try:
                    r = fn(mgr, num_wires)
                    exc = False
                    return r
                finally:
                    if rec.calls is not None:
                        rec.calls.append({"op": op, "n": int(num_wires), "exc": exc, "z": int(mgr.zeroed), "a": int(mgr.any_state),
                                          "t": int(mgr.total_wires)})
            return method
        W.grab_zeroed, W.free_wires = wrap("grab", og), wrap("free", of)
        return self

    def __exit__(self, *a):
        W = qre.WireResourceManager
        W.grab_zeroed, W.free_wires = self._orig

    def run(self, thunk):
        """-> (Resources | None, exception class name | '', calls)"""
        self.calls = []
        try:
            res, exc = thunk(), ""
        except ValueError:
            res, exc = None, "ValueError"
        except LeafReached as e:
            raise lib.MachineryError(f"gate-set closure too small: leaf {e} asked for a decomposition")
        except Exception as e:  # noqa: BLE001 - a crash of estimate is an outcome to report
            res, exc = None, type(e).__name__
        calls, self.calls = self.calls, None
        return res, exc, calls


def est_record(cfg, res, exc, calls, lb=-1, algoexp=-1):
    fin = {"ok": res is not None, "z": -1, "a": -1, "algo": -1, "total": -1}
    if res is not None:
        fin = {"ok": True, "z": int(res.zeroed_wires), "a": int(res.any_state_wires), "algo": int(res.algo_wires), "total": int(res.total_wires)}
    # the manager's algorithmic wires are fixed before the first call: read them off the first recorded total
    algo = calls[0]["t"] - calls[0]["z"] - calls[0]["a"] if calls else max(fin["algo"], 0)
    return {"kind": "est", "cfg": {"z": cfg[0], "a": cfg[1], "algo": algo, "tight": bool(cfg[2])}, "calls": calls, "fin": fin, "lb": lb,
            "algoexp": algoexp, "parts": [], "whole": [], "op": ""}


def counts_of(res):
    c = collections.Counter()
    for k, v in res.gate_types.items():
        c[repr(k)] += int(v)
    return sorted((k, v) for k, v in c.items() if v != 0)


EMPTY_FIN = {"ok": True, "z": 0, "a": 0, "algo": 0, "total": 0}
EMPTY_CFG = {"z": 0, "a": 0, "algo": 0, "tight": False}


def add_record(parts, whole, op=""):
    return {"kind": "add", "cfg": EMPTY_CFG, "calls": [], "fin": EMPTY_FIN, "lb": -1, "algoexp": -1, "op": op,
            "parts": [{"k": k, "c": [list(x) for x in c], "z": 0, "a": 0, "algo": 0} for k, c in parts], "whole": [list(x) for x in whole]}


def comb_record(op, ins, k, out):
    def w(r):
        return {"z": int(r.zeroed_wires), "a": int(r.any_state_wires), "algo": int(r.algo_wires)}
    return {"kind": "comb", "cfg": EMPTY_CFG, "calls": [], "lb": -1, "algoexp": -1, "op": op,
            "fin": dict(w(out), ok=True, total=int(out.total_wires)),
            "parts": [dict(w(r), k=k, c=[list(x) for x in counts_of(r)]) for r in ins], "whole": [list(x) for x in counts_of(out)]}


# ------------------------------------------------------------------------------------------------ library operators (real qre classes)
POOL = {
    "Hadamard": lambda w=None: qre.Hadamard(wires=w), "X": lambda w=None: qre.X(wires=w), "S": lambda w=None: qre.S(wires=w),
    "T": lambda w=None: qre.T(wires=w), "Z": lambda w=None: qre.Z(wires=w), "CNOT": lambda w=None: qre.CNOT(wires=w),
    "CZ": lambda w=None: qre.CZ(wires=w), "CH": lambda w=None: qre.CH(wires=w), "SWAP": lambda w=None: qre.SWAP(wires=w),
    "CSWAP": lambda w=None: qre.CSWAP(wires=w), "Toffoli": lambda w=None: qre.Toffoli(wires=w), "CCZ": lambda w=None: qre.CCZ(wires=w),
    "RX": lambda w=None: qre.RX(precision=1e-3, wires=w), "RZ": lambda w=None: qre.RZ(wires=w), "Rot": lambda w=None: qre.Rot(wires=w),
    "PhaseShift": lambda w=None: qre.PhaseShift(wires=w), "ControlledPhaseShift": lambda w=None: qre.ControlledPhaseShift(wires=w),
    "CRX": lambda w=None: qre.CRX(wires=w), "MultiRZ": lambda w=None: qre.MultiRZ(num_wires=3, wires=w),
    "PauliRot": lambda w=None: qre.PauliRot("XYZ", wires=w), "QFT": lambda w=None: qre.QFT(num_wires=3, wires=w),
    "AQFT": lambda w=None: qre.AQFT(order=2, num_wires=4, wires=w), "MCX31": lambda w=None: qre.MultiControlledX(3, 1, wires=w),
    "MCX50": lambda w=None: qre.MultiControlledX(5, 0, wires=w), "TemporaryAND": lambda w=None: qre.TemporaryAND(wires=w),
    "SemiAdder": lambda w=None: qre.SemiAdder(4, wires=w), "SingleExcitation": lambda w=None: qre.SingleExcitation(wires=w),
    "PhaseGradient": lambda w=None: qre.PhaseGradient(3, wires=w), "OutMultiplier": lambda w=None: qre.OutMultiplier(2, 2, wires=w),
    "OutOfPlaceSquare": lambda w=None: qre.OutOfPlaceSquare(3, wires=w), "IntegerComparator": lambda w=None: qre.IntegerComparator(5, 4, wires=w),
    "RegisterComparator": lambda w=None: qre.RegisterComparator(3, 3, wires=w), "UniformStatePrep": lambda w=None: qre.UniformStatePrep(5, wires=w),
    "AliasSampling": lambda w=None: qre.AliasSampling(3, wires=w), "QROM": lambda w=None: qre.QROM(4, 3, wires=w),
    "Select": lambda w=None: qre.Select([qre.X(), qre.Y(), qre.Z()], wires=w), "QPE": lambda w=None: qre.QPE(qre.RZ(), 2, wires=w),
    "ControlledSequence": lambda w=None: qre.ControlledSequence(qre.RX(), 3, wires=w), "Reflection": lambda w=None: qre.Reflection(3, wires=w),
    "BasisState": lambda w=None: qre.BasisState(3, wires=w),
}
GATE_SETS = [None,
             {"T", "CNOT", "Hadamard", "X", "Y", "Z", "S", "Toffoli", "RZ", "RX", "RY"},
             {"QFT", "Toffoli", "CNOT", "Hadamard", "T", "X", "Y", "Z", "S", "MultiControlledX", "TemporaryAND", "Adjoint(TemporaryAND)"},
             {"T", "CNOT", "Hadamard", "X", "Y", "Z", "S", "Toffoli", "SWAP", "ControlledPhaseShift", "CZ", "PhaseShift"}]
ALLOCATING = {"AQFT", "MCX31", "MCX50", "SemiAdder", "IntegerComparator", "RegisterComparator", "UniformStatePrep", "AliasSampling", "QROM", "Select"}


def library_traces(rng, n, rec):
    """seeded workflows of real library operators -> (records, meta, stats)"""
    recs, meta = [], []
    st = collections.Counter()
    keys = sorted(POOL)
    widths = {}
    for k in keys:
        widths[k] = POOL[k]().num_wires
    for it in range(n):
        ks = [rng.choice(keys) for _ in range(rng.randint(2, 4))]
        if rng.random() < 0.6 and not set(ks) & ALLOCATING:
            ks[rng.randrange(len(ks))] = rng.choice(sorted(ALLOCATING))
        gs = rng.choice(GATE_SETS)
        mode = rng.choice(["seq", "seq", "adj", "ctrl", "pow", "rep", "scalar"])
        budget = (rng.choice([0, 0, 2, 5, 70]), rng.choice([0, 0, 1, 3]), rng.random() < 0.3)
        kw = {"gate_set": gs, "zeroed_wires": budget[0], "any_state_wires": budget[1], "tight_wires_budget": budget[2]}
        nrep = rng.randint(2, 5)
        labelled = {}
        if mode == "seq":
            for i, k in enumerate(ks):
                if rng.random() < 0.5:
                    labelled[i] = rng.sample(range(12), widths[k])
        lb, algoexp = -1, -1

        def mk(i, with_wires=True):
            return POOL[ks[i]](labelled.get(i) if with_wires else None)
        if mode == "seq":
            def whole():
                def circ():
                    for i in range(len(ks)):
                        mk(i)
                return qre.estimate(circ, **kw)()
            part_fns = [(1, (lambda i=i: qre.estimate(mk(i), gate_set=gs))) for i in range(len(ks))]
            labels = set(w for ws in labelled.values() for w in ws)
            unl = max([widths[k] for i, k in enumerate(ks) if i not in labelled], default=0)
            algoexp = len(labels) + unl
            lb = max(len(labels), max(widths[k] for k in ks))
        elif mode in ("adj", "ctrl", "pow"):
            wrap = {"adj": lambda o: qre.Adjoint(o), "ctrl": lambda o: qre.Controlled(o, 2, 0), "pow": lambda o: qre.Pow(o, nrep)}[mode]

            def whole():
                return qre.estimate(wrap(qre.Prod([mk(i) for i in range(len(ks))])), **kw)
            if mode == "pow":
                part_fns = [(nrep, (lambda i=i: qre.estimate(mk(i), gate_set=gs))) for i in range(len(ks))]
            else:
                part_fns = [(1, (lambda i=i: qre.estimate(wrap(mk(i)), gate_set=gs))) for i in range(len(ks))]
        elif mode == "rep":
            form = it % 2

            def whole():
                if form:
                    return qre.estimate(qre.Prod([(mk(0), nrep)]), **kw)

                def circ():
                    for _ in range(nrep):
                        mk(0)
                return qre.estimate(circ, **kw)()
            part_fns = [(nrep, lambda: qre.estimate(mk(0), gate_set=gs))]
        else:
            def whole():
                return qre.estimate(nrep * mk(0), **kw)
            part_fns = [(nrep, lambda: qre.estimate(mk(0), gate_set=gs))]
        res, exc, calls = rec.run(whole)
        recs.append(est_record(budget, res, exc, calls, lb=lb, algoexp=algoexp))
        meta.append(("est", mode, ks, budget, gs))
        st["library_estimates"] += 1
        st["library_estimates_with_allocations"] += bool(calls)
        st["library_estimates_raising"] += res is None
        st["library_estimates_beyond_budget"] += any(c["op"] == "grab" and not c["exc"] and c["z"] == 0 for c in calls)
        if exc not in ("", "ValueError"):
            st["library_crashes"] += 1
        if res is None:
            continue
        parts = []
        for k, f in part_fns:
            pres, pexc, _ = rec.run(f)
            if pres is None:
                parts = None
                break
            parts.append((k, counts_of(pres)))
        if parts is None:
            st["library_parts_not_estimable"] += 1          # e.g. the adjoint of an allocating operator releases before it allocates
            continue
        recs.append(add_record(parts, counts_of(res), op=mode))
        meta.append(("add", mode, ks, budget, gs))
        st["additivity_records"] += 1
        st[f"additivity_{mode}"] += 1
        if it % 5 == 0 and len(parts) >= 2:
            r1, _, _ = rec.run(part_fns[0][1])
            r2, _, _ = rec.run(part_fns[1][1])
            k = rng.randint(2, 4)
            for op, ins, kk, out in (("add_series", [r1, r2], 1, r1.add_series(r2)), ("add_parallel", [r1, r2], 1, r1.add_parallel(r2)),
                                     ("multiply_series", [r1], k, r1.multiply_series(k)), ("multiply_parallel", [r2], k, r2.multiply_parallel(k))):
                recs.append(comb_record(op, ins, kk, out))
                meta.append(("comb", op, ks, budget, gs))
                st["combination_records"] += 1
    return recs, meta, st


def random_wm_traces(rng, n, length):
    recs = []
    for _ in range(n):
        cfg = {"z": rng.choice([0, 1, 4, 10]), "a": rng.choice([0, 2, 7]), "algo": rng.choice([0, 5]), "tight": rng.random() < 0.5}
        m = qre.WireResourceManager(zeroed=cfg["z"], any_state=cfg["a"], algo_wires=cfg["algo"], tight_budget=cfg["tight"])
        calls = []
        for _ in range(length):
            op, k = rng.choice(["grab", "free"]), rng.choice([0, 1, 2, 3, 5, 8, 13])
            exc = False
            try:
                (m.grab_zeroed if op == "grab" else m.free_wires)(k)
            except ValueError:
                exc = True
            calls.append({"op": op, "n": k, "exc": exc, "z": int(m.zeroed), "a": int(m.any_state), "t": int(m.total_wires)})
        recs.append({"kind": "wm", "cfg": cfg, "calls": calls, "fin": EMPTY_FIN, "lb": -1, "algoexp": -1, "parts": [], "whole": [], "op": ""})
    return recs


# ------------------------------------------------------------------------------------------------ the check
def run(tier, seed):
    quick = tier == "quick"
    rng = random.Random(seed)
    viol, seen = [], collections.Counter()
    t_start = time.time()

    def tick(what):
        if os.environ.get("VERIF_TIMING"):
            print(f"[C47 {time.time() - t_start:6.1f}s] {what}")

    def flag(key, detail, replay):
        seen[key] += 1
        if seen[key] <= 3:
            viol.append(Violation(key=key, detail=detail, replay=replay))
    common = {"Lib": lib_tla(), "Width": "[" + ", ".join(f"{k} |-> {v}" for k, v in WIDTH.items()) + "]",
              "Names": "{" + ",".join(f'"{n}"' for n in WIDTH) + "}"}
    inv = ["NonNeg", "TotalGeAlgo", "Accounted"]
    # ---------------------------------------------------------------- (M) + generators
    terms = terms_tla(tier)
    g = lib.run_tlc_mc("EstimatorGen", dict(common, WMCfgs=wm_cfgs(tier), WFCfgs=wf_cfgs(tier), Terms="{" + ", ".join(terms) + "}",
                                            Amounts="{1,2,3}" if quick else "{0,1,2,3}"),
                       lib.workdir("C47", "gen"), constants={"MaxEvents": 4 if quick else 5, "MaxLen": 2}, init="InitAll", next_="NextAll",
                       invariants=inv + ["Additive", "TermLaws"], constraints=["EmitWM"], timeout=3000)
    if g.invariant_violated:
        raise lib.MachineryError(f"Estimator.tla violates its own invariant {g.invariant_violated} (oracle error): " + g.out[-1500:])
    lib.require_ok(g, "EstimatorGen")
    hists = [x for x in g.json_lines if "calls" in x]
    cases = [x for x in g.json_lines if "wf" in x]
    if len(hists) < 1000 or len(cases) < 1000:
        raise lib.MachineryError(f"generators produced too few cases ({len(hists)}, {len(cases)})")
    tick(f"generators done: {len(hists)} histories, {len(cases)} workflows")
    if len(hists) < 1000 or len(cases) < 1000:
        raise lib.MachineryError(f"generators produced too few cases ({len(hists)}, {len(cases)})")
    # ---------------------------------------------------------------- (R1) manager histories
    st = collections.Counter()
    n_eval = 0
    for h in hists:
        c = h["cfg"]
        m = qre.WireResourceManager(zeroed=c["z"], any_state=c["a"], algo_wires=c["algo"], tight_budget=c["tight"])
        for i, e in enumerate(h["calls"]):
            exc = False
            try:
                (m.grab_zeroed if e["op"] == "grab" else m.free_wires)(e["n"])
            except ValueError:
                exc = True
            n_eval += 1
            got = {"exc": exc, "z": m.zeroed, "a": m.any_state, "total": m.total_wires}
            exp = {k: e[k] for k in got}
            st["wm_calls_raising"] += e["exc"]
            st["wm_grabs_beyond_budget"] += e["op"] == "grab" and not e["exc"] and e["z"] == 0 and e["n"] > 0
            if got != exp:
                clause = "negative-wires" if min(m.zeroed, m.any_state) < 0 else ("raise" if exc != e["exc"] else "bookkeeping")
                flag(f"WireResourceManager.{'grab_zeroed' if e['op'] == 'grab' else 'free_wires'}:{clause}",
                     f"cfg={c} calls={[(x['op'], x['n']) for x in h['calls'][:i + 1]]}: expected {exp}, got {got}", {"cfg": c, "calls": h["calls"][:i + 1]})
                break
    tick("manager histories replayed")
    # ---------------------------------------------------------------- (R2) workflows through estimate
    closure = wrapper_closure()
    traces, tmeta = [], []
    drift = collections.Counter()
    nontriv, samples = set(), []
    with Recorder() as rec:
        for ci, case in enumerate(cases):
            c, wf = case["cfg"], case["wf"]
            gate_set = closure | set(c["gs"])
            kw = {"gate_set": gate_set, "zeroed_wires": c["z"], "any_state_wires": c["a"], "tight_wires_budget": c["tight"]}
            label = " ; ".join(term_str(t) for t in wf)
            exp_counts = {k: v for k, v in case["counts"].items() if v}

            def circ():
                for t in wf:
                    build(t)
            runs = [("qfunc", lambda: qre.estimate(circ, **kw)())]
            if len(wf) == 1:
                runs.append(("operator", lambda: qre.estimate(build(wf[0]), **kw)))
            for form, thunk in runs:
                res, exc, calls = rec.run(thunk)
                n_eval += 1
                traces.append(est_record((c["z"], c["a"], c["tight"]), res, exc, calls, lb=case["fin"]["algo"], algoexp=case["fin"]["algo"]))
                tmeta.append(("replay", form, label, c))
                if exc not in ("", "ValueError"):
                    flag(f"estimate:crash:{exc}", f"estimate raised {exc} for workflow [{label}] cfg={c}", {"case": case, "form": form})
                    continue
                if (res is None) != (case["err"] != ""):
                    drift["error_status"] += 1                       # the recorded calls are judged by Trace_Estimator
                    continue
                if res is None:
                    st["wf_expected_errors_" + case["err"]] += 1
                    continue
                got = collections.Counter()
                for k, v in res.gate_types.items():
                    got[base_of(k)] += int(v)
                got = {k: v for k, v in got.items() if v}
                st["wf_compared"] += 1
                st["wf_with_created_wires"] += case["fin"]["z"] + case["fin"]["a"] > c["z"] + c["a"]
                if got != exp_counts:
                    flag("estimate:gate-counts-not-sum-of-parts",
                         f"workflow [{label}] gate set +{c['gs']} ({form}): counts {got}, the sum over the parts is {exp_counts}",
                         {"case": case, "form": form, "got": got})
                    continue
                if (res.zeroed_wires, res.any_state_wires) != (case["fin"]["z"], case["fin"]["a"]):
                    drift["wire_history"] += 1
                evs = case["events"]
                grabs = [e for e in evs if e["e"] == "grab"]
                if grabs and any(e["e"] == "count" and e["n"] > 1 for e in evs):
                    nontriv.add((label, json.dumps(c, sort_keys=True)))
                    if len(samples) < 2 and len(wf) == 2 and len(grabs) >= 3 and ci % 7 == 0:
                        samples.append({"workflow": label, "cfg": c, "expected_counts": exp_counts, "wires": case["fin"], "events": len(evs)})
        # negative control of the comparator (synthetic, independent of what the implementation returned)
        probe = next(x for x in cases if x["err"] == "" and sum(1 for v in x["counts"].values() if v) >= 2)
        good = {k: v for k, v in probe["counts"].items() if v}
        bad = dict(good)
        bad[next(iter(bad))] += 1
        if good != {k: v for k, v in probe["counts"].items() if v} or good == bad:
            raise lib.MachineryError("negative control accepted by the count comparator")
        neg_cmp = 1
        tick("workflows replayed")
        # ---------------------------------------------------------------- (T) library workflows + random manager histories
        lrecs, lmeta, lst = library_traces(rng, 700 if quick else 8000, rec)
    st.update(lst)
    tick("library traces recorded")
    wrecs = random_wm_traces(rng, 400 if quick else 5000, 14)
    base_n = len(traces)
    allrecs = traces + lrecs + wrecs
    allmeta = tmeta + lmeta + [("wm", "", "", None)] * len(wrecs)
    # negative controls for the trace spec (built from well-formed records, one corrupted field each)
    neg = []

    def add_neg(r, expect):
        neg.append((len(allrecs), expect))
        allrecs.append(r)
        allmeta.append(("NEG", expect, "", None))
    src = {"kind": "est", "cfg": {"z": 2, "a": 1, "algo": 3, "tight": False}, "lb": 3, "algoexp": 3, "parts": [], "whole": [], "op": "",
           "calls": [{"op": "grab", "n": 3, "exc": False, "z": 0, "a": 4, "t": 7}, {"op": "free", "n": 2, "exc": False, "z": 2, "a": 2, "t": 7}],
           "fin": {"ok": True, "z": 2, "a": 2, "algo": 3, "total": 7}}           # hand-written, well-formed
    add_neg(dict(src), "ok")
    add_neg(dict(src, fin=dict(src["fin"], a=src["fin"]["a"] + 1, total=src["fin"]["total"] + 1)), "allocation-not-accounted")
    add_neg(dict(src, fin=dict(src["fin"], total=src["fin"]["algo"] - 1)), "total-wires")
    add_neg(dict(src, lb=src["fin"]["algo"] + 1), "algo-wires-below-workflow")
    c0 = dict(src["calls"][0])
    add_neg(dict(src, calls=[dict(c0, z=c0["z"] + 1, t=c0["t"] + 1)] + src["calls"][1:]), c0["op"] + "-bookkeeping")
    add_neg({"kind": "wm", "cfg": {"z": 1, "a": 0, "algo": 0, "tight": True}, "fin": EMPTY_FIN, "lb": -1, "algoexp": -1, "parts": [], "whole": [], "op": "",
             "calls": [{"op": "grab", "n": 2, "exc": False, "z": 0, "a": 2, "t": 2}]}, "grab-overdraw-accepted")
    add_neg({"kind": "wm", "cfg": {"z": 1, "a": 1, "algo": 0, "tight": False}, "fin": EMPTY_FIN, "lb": -1, "algoexp": -1, "parts": [], "whole": [], "op": "",
             "calls": [{"op": "free", "n": 2, "exc": False, "z": 3, "a": -1, "t": 2}]}, "negative-wires")
    srca = add_record([(1, [("T", 3), ("X", 2)]), (2, [("T", 1)])], [("T", 5), ("X", 2)], op="seq")
    add_neg(dict(srca), "ok")
    add_neg(dict(srca, whole=[["T", 6], ["X", 2]]), "additivity")
    add_neg(dict(srca, whole=[["T", 5]]), "additivity")
    # identical records (e.g. the two call forms of one workflow) are validated once
    uniq, slot = {}, []
    for rcd in allrecs:
        key = json.dumps(rcd, sort_keys=True)
        slot.append(uniq.setdefault(key, len(uniq)))
    ulist = [json.loads(k) for k in uniq]
    wd = lib.workdir("C47", "trace")
    (wd / "traces.json").write_text(json.dumps(ulist))
    r = lib.run_tlc_mc("Trace_Estimator", {"Lib": "<<>>", "Width": "<<>>"}, wd, constants={"NTRACES": len(ulist)}, init="TInit", next_="TNext",
                       env={"TRACE_FILE": str(wd / "traces.json")}, timeout=3000)
    lib.require_ok(r, "Trace_Estimator")
    tick("trace validation done")
    uverd = {t[1] - 1: (t[2], t[3]) for t in r.tuples if t[0] == "V"}
    if len(uverd) != len(ulist):
        raise lib.MachineryError(f"verdicts not total: {len(uverd)} of {len(ulist)}")
    verd = {i: uverd[slot[i]] for i in range(len(allrecs))}
    for i, expect in neg:
        if verd[i][0] != expect:
            raise lib.MachineryError(f"negative control '{expect}' not rejected by Trace_Estimator (verdict {verd[i]})")
    for i, (kind, a, b, c, *_) in enumerate(allmeta):
        if kind == "NEG":
            continue
        v, d = verd[i]
        if d != "none":
            drift[d.replace("-", "_")] += 1
        if v == "ok":
            continue
        if kind == "replay":
            flag(f"estimate:{v}", f"{v}: workflow [{b}] cfg={c} ({a}); recorded calls {allrecs[i]['calls']} reported {allrecs[i]['fin']}",
                 {"record": allrecs[i], "workflow": b})
        elif kind == "est":
            flag(f"estimate:{v}", f"{v}: library workflow {a} of {b} budget={c}; recorded calls {allrecs[i]['calls'][:12]} reported {allrecs[i]['fin']}",
                 {"record": allrecs[i], "ops": b, "mode": a})
        elif kind == "add":
            flag(f"estimate:{a}:{v}", f"{v}: gate counts of the {a} workflow of {b} differ from the counts of its parts: whole {allrecs[i]['whole'][:8]} "
                                      f"parts {[(p['k'], p['c'][:6]) for p in allrecs[i]['parts']]}", {"record": allrecs[i], "ops": b, "mode": a})
        elif kind == "comb":
            flag(f"Resources.{a}:{v}", f"{v}: {a} of the estimates of {b[:2]}: {allrecs[i]['fin']} {allrecs[i]['whole'][:8]}", {"record": allrecs[i]})
        else:
            flag(f"WireResourceManager:{v}", f"{v}: {allrecs[i]['cfg']} {allrecs[i]['calls']}", {"record": allrecs[i]})
    for i, m in enumerate(lmeta):
        if m[0] == "add" and verd[base_n + i][0] == "ok" and len(allrecs[base_n + i]["parts"]) >= 2:
            nontriv.add(("library", m[1], tuple(m[2]), str(m[4] and sorted(m[4]))))
            if len(samples) < 4 and m[1] in ("adj", "seq") and set(m[2]) & ALLOCATING:
                samples.append({"library_workflow": m[1], "operators": m[2], "gate_types_in_whole": len(allrecs[base_n + i]["whole"]),
                                "total_gates": sum(x[1] for x in allrecs[base_n + i]["whole"]), "verdict": "ok"})
    # vacuity
    need = {"wm_calls_raising": 100, "wm_grabs_beyond_budget": 100, "wf_compared": 1000, "wf_with_created_wires": 100, "wf_expected_errors_grab": 10,
            "wf_expected_errors_free": 10, "library_estimates_with_allocations": 100, "library_estimates_beyond_budget": 20,
            "library_estimates_raising": 5, "additivity_records": 200, "combination_records": 50}
    for k, v in need.items():
        if st[k] < v and not viol:                      # reported violations take precedence over a vacuity complaint
            raise lib.MachineryError(f"vacuous: '{k}' = {st[k]} < {v}")
    if drift["error_status"] > len(cases) // 10 and not viol:
        raise lib.MachineryError(f"the model's allocation errors disagree with the code on {drift['error_status']} workflows: comparison would be vacuous")
    cov = {"states": g.distinct + r.distinct, "transitions": g.generated + r.generated,
           "traces_validated_against_impl": len(allrecs) - len(neg), "evaluations": n_eval + st["library_estimates"] + st["additivity_records"],
           "distinct_nontrivial": len(nontriv),
           "rule": "TLC enumerates every workflow of <= 2 terms over the term set (composites with allocations, adjoint / controlled / pow / prod "
                   "wrappers up to depth 3) x budgets x gate sets and every Grab/Free history up to the bound; non-trivial = distinct (workflow, "
                   "configuration) whose history has at least one allocation and one gate counted with repetition > 1 and whose reported counts "
                   "agreed, plus distinct seeded library workflows with >= 2 parts whose additivity record TLC accepted",
           "samples": samples, "exhaustive": True,
           "model": {"module": "Estimator / EstimatorGen", "invariants": inv + ["Additive", "TermLaws"], "manager_histories": len(hists),
                     "workflows": len(cases), "terms": len(terms), "states": g.distinct},
           "model_drift": dict(drift), "negative_controls_rejected": neg_cmp + len(neg) - 2,
           "distinct_trace_records": len(ulist), "tlc_wall_s": [round(g.wall_s, 1), round(r.wall_s, 1)], **{k: int(v) for k, v in st.items()}}
    return CheckResult(coverage=cov, violations=viol, assumptions=[
        "the replayed operators are harness-defined ResourceOperator subclasses whose decompositions are the spec's Lib table; adjoint / "
        "controlled wrappers of leaves are members of the gate set (counts are compared per base gate)",
        "num_zero_ctrl = 0; powers >= 1; amounts are non-negative integers",
        "which Allocate amounts are scaled by the repetition count is mechanism (drift); the property-level verdicts on wires come from the "
        "recorded grab_zeroed / free_wires calls",
        "library workflows: the parts are estimated with the same gate set and the default wire budget"])
