"""C60 Classical-shadow estimators are exactly unbiased.

(M) spec/sys/Shadows.tla transcribes the documented snapshot 3 U^dag|b><b|U - I (U = H, H S^dag, I for recipes
    0/1/2 = X/Y/Z) and the measurement model; spec/gen/ShadowsGen.tla enumerates every circuit of <= MaxLen gates
    over {H, S, T, CNOT} on NQ qubits and, for the ring state of each, walks through ALL 3^n recipes accumulating
    sum_{r,b} P(b|r) Snapshot(r,b) and sum_{r,b} P(b|r) tr(Snapshot(r,b) P) for all 4^n Pauli words with exact Born
    probabilities.  TLC checks the invariant Unbiased (= 3^n rho, = 3^n <P>) on every such state: the property on the model.
(C) REPLAY: qp.ClassicalShadow(bits, recipes) is fed the FULL enumeration of the 3^n 2^n (recipe, outcome) pairs; every
    local snapshot, every global snapshot and every per-snapshot Pauli estimate (ClassicalShadow.expval on one-row
    shadows and shadows.pauli_expval) is compared with the table TLC emitted; per state the implementation's snapshots
    and estimates are averaged with TLC's exact probabilities and compared with TLC's rho / <P> / <sum>; for states
    whose probabilities are dyadic the rows are fed with their exact multiplicities so that ClassicalShadow itself
    (np.mean(global_snapshots), expval(k=1)) does the averaging.
    TRACE: qp.classical_shadow executed on default.qubit / default.mixed; Trace_Shadows.tla decides the documented form
    (shape (2,T,n), recipes in {0,1,2}, bits in {0,1}) and that every sampled row has non-zero exact probability
    (which binds the recipe and bit conventions); qp.shadow_expval on the same circuit must return a value that is a feasible
    sum of per-snapshot estimates of rows with non-zero probability (sign-definite for words stabilising the state), decided
    by TLC; equality with classical_shadow + ClassicalShadow.expval under the same seeds is recorded as drift only."""
import json
import random
from concurrent.futures import ThreadPoolExecutor

import numpy as np

import pennylane as qp
from pennylane.shadows.classical_shadow import pauli_expval

from .. import lib
from ..codec import decode_gate
from ..lib import CheckResult, Violation, ring_matrix_to_numpy, ring_to_complex

M = 3
TOL = 1e-8
PAULI = [None, qp.X, qp.Y, qp.Z]
# number of qubits -> maximal circuit length enumerated by ShadowsGen.tla
PLAN = {"quick": {1: 4, 2: 3}, "thorough": {1: 6, 2: 4, 3: 2}}


def sc(x):
    return ring_to_complex(x["c"], x["k"], M)


def digits(v, base, n):
    return [(v // base ** (n - 1 - i)) % base for i in range(n)]


def word_op(word, labels, form=0):
    """Pauli word (0..3 per column) -> observable on the given wire labels, in one of several operator forms."""
    fs = [PAULI[c](labels[i]) for i, c in enumerate(word) if c]
    if not fs:
        op = qp.Identity(labels[0])
    elif len(fs) == 1:
        op = fs[0]
    else:
        op = qp.prod(*fs) if form != 1 else qp.pauli.string_to_pauli_word(
            "".join("IXYZ"[c] for c in word), wire_map={w: i for i, w in enumerate(labels)})
    if form == 2:
        op = qp.Hamiltonian([1.0], [op])
    elif form == 3:
        op = qp.s_prod(1.0, op)
    return op


def ham_op(terms, labels, n, form):
    coeffs = [t["c"] / 2 ** t["k"] for t in terms]
    ops = [word_op(digits(t["w"], 4, n), labels) for t in terms]
    if form == 0:
        return qp.Hamiltonian(coeffs, ops)
    if form == 1:
        return qp.sum(*[qp.s_prod(c, o) for c, o in zip(coeffs, ops)])
    return qp.dot(coeffs, ops)


def gen_hams(rng, n):
    hams = []
    for _ in range(3):
        nt = rng.randint(2, min(4, 4 ** n - 1))
        ws = rng.sample(range(0 if rng.random() < 0.3 else 1, 4 ** n), nt)
        hams.append([{"c": rng.choice([-5, -3, -2, -1, 1, 2, 3, 5]), "k": rng.choice([0, 1, 2]), "w": w} for w in ws])
    return hams


def tla_hams(hams):
    return "<<" + ", ".join("<<" + ", ".join(f"[c |-> {t['c']}, k |-> {t['k']}, w |-> {t['w']}]" for t in h) + ">>" for h in hams) + ">>"


def close(a, b):
    a, b = np.asarray(a), np.asarray(b)
    return a.shape == b.shape and bool(np.allclose(a, b, atol=TOL, rtol=0))


class Ctx:
    def __init__(self):
        self.viol, self.n_eval, self.drift = [], 0, 0

    def cmp(self, key, what, got, exp, replay):
        self.n_eval += 1
        if not close(got, exp):
            g, e = np.asarray(got), np.asarray(exp)
            err = float(np.max(np.abs(g - e))) if g.shape == e.shape else -1.0
            self.viol.append(Violation(key=key, detail=f"{what}: max err {err:.3g}; got {np.round(g, 6).tolist()!r:.300} expected {np.round(e, 6).tolist()!r:.300}",
                                       replay=replay))
            return False
        return True


def check_tables(ctx, n, tab, rng):
    """Full enumeration of (recipe, outcome) rows through ClassicalShadow vs TLC's tables.  Returns the implementation's
    per-row global snapshots and per-row/per-word estimates (used afterwards for the probability-weighted averages)."""
    NR, D, NW = 3 ** n, 2 ** n, 4 ** n
    rows = [(ri, bi) for ri in range(NR) for bi in range(D)]
    recipes = np.array([digits(ri, 3, n) for ri, _ in rows], dtype=np.int8)
    bits = np.array([digits(bi, 2, n) for _, bi in rows], dtype=np.int8)
    snap1 = [[ring_matrix_to_numpy(tab["snap1"][r][b], M) for b in range(2)] for r in range(3)]
    snap = [[ring_matrix_to_numpy(tab["snap"][ri][bi], M) for bi in range(D)] for ri in range(NR)]
    est = np.array([[[sc(x) for x in tab["est"][ri][bi]] for bi in range(D)] for ri in range(NR)]).reshape(NR * D, NW)
    if np.max(np.abs(est.imag)) > 1e-12:
        raise lib.MachineryError("reference estimates are not real")
    est = est.real
    labels = list(range(n)) if n == 1 else rng.sample(range(5), n)        # non-trivial wire_map
    shadow = qp.ClassicalShadow(bits, recipes, wire_map=labels)
    loc = shadow.local_snapshots()
    exp_loc = np.array([[snap1[recipes[t][i]][bits[t][i]] for i in range(n)] for t in range(len(rows))])
    ctx.cmp(f"local_snapshots:n={n}", "ClassicalShadow.local_snapshots() vs 3U^dag|b><b|U - I", loc, exp_loc, {"n": n})
    glob = np.asarray(shadow.global_snapshots())
    exp_glob = np.array([snap[ri][bi] for ri, bi in rows])
    for t, (ri, bi) in enumerate(rows):
        ctx.cmp(f"global_snapshot:n={n}:r={recipes[t].tolist()}:b={bits[t].tolist()}", "ClassicalShadow.global_snapshots() row vs tensor product of "
                "documented local snapshots", glob[t], exp_glob[t],
                {"n": n, "recipe": recipes[t].tolist(), "bits": bits[t].tolist()})
    # wire selection / order: snapshots on the permuted columns equal the table entry of the permuted (recipe, bits)
    if n >= 2:
        perm = list(range(n))
        while perm == list(range(n)):
            rng.shuffle(perm)
        for sel in (perm, perm[:n - 1]):
            g2 = np.asarray(shadow.global_snapshots(wires=sel))
            k = len(sel)
            e2 = []
            for t in range(len(rows)):
                m = np.array([[1.0 + 0j]])
                for i in sel:
                    m = np.kron(m, snap1[recipes[t][i]][bits[t][i]])
                e2.append(m)
            ctx.cmp(f"global_snapshots(wires):n={n}:k={k}", f"global_snapshots(wires={sel})", g2, np.array(e2), {"n": n, "wires": sel})
        idx = rng.sample(range(len(rows)), 5)
        ctx.cmp(f"global_snapshots(snapshots):n={n}", "global_snapshots(snapshots=indices)", np.asarray(shadow.global_snapshots(snapshots=idx)),
                exp_glob[idx], {"n": n, "snapshots": idx})
    # per-snapshot estimates: module function on the whole enumeration, and expval() of one-row shadows
    words = np.array([[c - 1 for c in digits(w, 4, n)] for w in range(NW)])
    pe = np.asarray(pauli_expval(bits, recipes, words))
    ctx.cmp(f"pauli_expval:n={n}", "shadows.pauli_expval(full enumeration) vs tr(Snapshot P)", pe, est, {"n": n})
    impl_est = np.zeros((len(rows), NW))
    for t in range(len(rows)):
        form = t % 4
        obs = [word_op(digits(w, 4, n), labels, form) for w in range(NW)]
        one = qp.ClassicalShadow(bits[t:t + 1], recipes[t:t + 1], wire_map=labels)
        got = np.asarray(one.expval(obs, k=1), dtype=float).reshape(-1)
        impl_est[t] = got if got.shape == (NW,) else np.nan
        ctx.cmp(f"expval_row:n={n}:r={recipes[t].tolist()}:b={bits[t].tolist()}", f"ClassicalShadow.expval (one snapshot, observable form {form}) vs tr(Snapshot P)",
                got, est[t], {"n": n, "recipe": recipes[t].tolist(), "bits": bits[t].tolist(), "labels": labels, "form": form})
    return {"rows": rows, "bits": bits, "recipes": recipes, "glob": glob, "est": impl_est, "labels": labels, "exp_est": est}


def dyadic(q):
    """all probabilities rational (only the zeta^0 coefficient non-zero) -> integer multiplicities, else None"""
    flat = [x for row in q for x in row]
    if any(any(x["c"][1:]) for x in flat):
        return None
    K = max(x["k"] for x in flat)
    return [x["c"][0] << (K - x["k"]) for x in flat]


def check_case(ctx, n, case, T, hams, ham_ops, ham_rows, stats):
    NR, D = 3 ** n, 2 ** n
    rho = ring_matrix_to_numpy(case["rho"], M)
    ev = np.array([sc(x) for x in case["ev"]])
    hv = np.array([sc(x) for x in case["hv"]])
    w = np.array([sc(case["q"][ri][bi]) for ri, bi in T["rows"]])
    if np.max(np.abs(w.imag)) > 1e-12 or np.max(np.abs(ev.imag)) > 1e-12 or abs(w.sum().real - NR) > 1e-9:
        raise lib.MachineryError("reference probabilities / expectations are not real or not normalised")
    w = w.real / NR                       # exact probability of the (recipe, outcome) pair
    name = "".join(g["g"][0] + "".join(map(str, g["w"])) for g in case["circ"]) or "empty"
    rep = {"n": n, "circ": case["circ"]}
    ok = ctx.cmp(f"avg_snapshot:n={n}:{name}", "probability-weighted average of global_snapshots() vs rho", np.tensordot(w, T["glob"], axes=1), rho, rep)
    ok &= ctx.cmp(f"avg_expval:n={n}:{name}", "probability-weighted average of per-snapshot expval() vs <psi|P|psi> (all Pauli words)",
                  w @ T["est"], ev.real, rep)
    ok &= ctx.cmp(f"avg_expval_sum:n={n}:{name}", "probability-weighted average of expval(sum of Paulis) vs exact", w @ ham_rows, hv.real, rep)
    mult = dyadic(case["q"])
    if mult is not None and sum(mult) <= 6000:
        stats["multiset"] += 1
        idx = np.repeat(np.arange(len(mult)), mult)
        sh = qp.ClassicalShadow(T["bits"][idx], T["recipes"][idx], wire_map=T["labels"])
        ok &= ctx.cmp(f"mean_global_snapshots:n={n}:{name}", f"np.mean(global_snapshots()) over the exact multiset of {len(idx)} snapshots vs rho",
                      np.mean(sh.global_snapshots(), axis=0), rho, rep)
        obs = [word_op(digits(wd, 4, n), T["labels"], stats["multiset"] % 4) for wd in range(4 ** n)]
        ok &= ctx.cmp(f"expval_multiset:n={n}:{name}", "ClassicalShadow.expval(all Pauli words, k=1) over the exact multiset vs <psi|P|psi>",
                      np.asarray(sh.expval(obs, k=1), dtype=float).reshape(-1), ev.real, rep)
        ok &= ctx.cmp(f"expval_sum_multiset:n={n}:{name}", "ClassicalShadow.expval(sums) over the exact multiset vs exact",
                      np.asarray(sh.expval(ham_ops, k=1), dtype=float).reshape(-1), hv.real, rep)
    else:
        stats["weighted_only"] += 1
    return ok, rho


# ------------------------------------------------------------------------------------------ device traces
def device_traces(cases_by_n, rng, tier):
    """Execute qp.classical_shadow / qp.shadow_expval on simulator devices for a sample of the generated circuits."""
    recs, metas = [], []
    per_n = {1: 8, 2: 32, 3: 12} if tier == "quick" else {1: 20, 2: 120, 3: 60}
    for n, cases in sorted(cases_by_n.items()):
        pool = [c for c in cases if len(c["circ"]) >= 1]
        # half of the multi-qubit traces use entangled states (a CNOT after a Hadamard): outcomes on different wires are correlated,
        # so a wrong post-measurement state in the sampler produces rows of probability zero
        ent = [c for c in pool if any(g["g"] == "CNOT" for g in c["circ"]) and c["circ"][0]["g"] == "Hadamard"
               and any(abs(abs(sc(x)) - 1) < 1e-12 for x in c["ev"][1:]) and dyadic(c["q"]) is not None]
        chosen = rng.sample(pool, min(per_n[n], len(pool)))
        if n >= 2 and ent:
            chosen = chosen[:len(chosen) // 2] + rng.sample(ent, min(len(chosen) - len(chosen) // 2, len(ent)))
        for ci_, case in enumerate(chosen):
            labels = rng.choice([list(range(n)), list(range(n)), ["a", "b", "c"][:n], rng.sample(range(6), n), list(range(n, 0, -1))])
            k = n if (n >= 2 and ci_ >= len(chosen) // 2) else rng.randint(1, n)
            ws = rng.sample(range(1, n + 1), k)              # measured register positions, column order
            mw = [labels[i - 1] for i in ws]
            shots = rng.choice([25, 40])
            dseed, mseed = rng.randrange(1, 10 ** 6), rng.randrange(1, 10 ** 6)
            devname = rng.choice(["default.qubit", "default.mixed"])
            ops = [decode_gate(g, M, labels) for g in case["circ"]]
            # words on the measured columns: the first has full support (fixes the measurement's wire order); prefer words that
            # stabilise the state up to sign (exact expectation +-1 in TLC's table): their per-snapshot estimates have a fixed sign
            evs = [sc(x) for x in case["ev"]]

            def full_index(wd):
                full = [0] * n
                for j, p in enumerate(ws):
                    full[p - 1] = wd[j]
                return sum(c * 4 ** (n - 1 - i) for i, c in enumerate(full))
            allw = [digits(v, 4, k) for v in range(1, 4 ** k)]
            det = [wd for wd in allw if abs(abs(evs[full_index(wd)]) - 1) < 1e-12]
            fulls = [wd for wd in (det or allw) if all(wd)] or [wd for wd in allw if all(wd)]
            words = [rng.choice(fulls)] + rng.sample(det, min(2, len(det))) + [[rng.randint(0, 3) for _ in range(k)]]
            meta = {"n": n, "dev": devname, "labels": labels, "wires": mw, "shots": shots, "seeds": [dseed, mseed],
                    "ops": [str(o) for o in ops], "words": words, "exact_ev": [round(evs[full_index(wd)].real, 6) for wd in words]}
            try:
                dev = qp.device(devname, wires=labels, seed=dseed)
                tape = qp.tape.QuantumScript(ops, [qp.classical_shadow(wires=mw, seed=mseed)], shots=shots)
                out = np.asarray(qp.execute([tape], dev, diff_method=None)[0])
            except Exception as e:  # pylint: disable=broad-except
                meta["exception"] = f"{type(e).__name__}: {e}"
                metas.append(meta)
                recs.append(None)
                continue
            try:
                dev = qp.device(devname, wires=labels, seed=dseed)
                obs = [word_op(wd, mw) for wd in words]
                tape2 = qp.tape.QuantumScript(ops, [qp.shadow_expval(obs, seed=mseed)], shots=shots)
                meta["shadow_expval"] = np.asarray(qp.execute([tape2], dev, diff_method=None)[0], dtype=float).reshape(-1).tolist()
            except Exception as e:  # pylint: disable=broad-except
                meta["shadow_expval"] = None
                meta["shadow_expval_exception"] = f"{type(e).__name__}: {e}"
            shape = list(out.shape)
            rowsd = {}
            if len(shape) == 3 and shape[0] == 2:
                for t in range(shape[1]):
                    key = (tuple(int(x) for x in out[1][t]), tuple(int(x) for x in out[0][t]))
                    rowsd[key] = rowsd.get(key, 0) + 1
            sev, sevint = [], []
            if meta["shadow_expval"] is not None and len(meta["shadow_expval"]) == len(words):
                for v, wd in zip(meta["shadow_expval"], words):
                    mm = v * shots / 3 ** sum(1 for c in wd if c)
                    sev.append(int(round(mm)))
                    sevint.append(bool(abs(mm - round(mm)) < 1e-6))
            recs.append({"n": n, "ops": case["circ"], "ws": ws, "T": shots, "shape": shape, "isint": bool(np.issubdtype(out.dtype, np.integer)),
                         "samples": [{"r": list(r), "b": list(b), "c": c} for (r, b), c in sorted(rowsd.items())], "words": words,
                         "hassev": bool(sev), "sev": sev, "sevint": sevint})
            metas.append(meta)
    return recs, metas


def run(tier, seed):
    rng = random.Random(6000 + seed)
    plan = dict(PLAN[tier])
    hams = {n: gen_hams(rng, n) for n in plan}
    nw = max(2, int(lib.os.environ.get("VERIF_TLC_WORKERS", "16")) // len(plan))

    def gen(n):
        return n, lib.run_tlc_mc("ShadowsGen", {"Hams": tla_hams(hams[n])}, lib.workdir("C60", f"gen{n}"),
                                 constants={"M": M, "NQ": n, "MaxLen": plan[n]}, invariants=["Unbiased", "RefSane"],
                                 workers=nw, timeout=3000)
    with ThreadPoolExecutor(len(plan)) as ex:
        results = dict(ex.map(gen, plan))
    ctx = Ctx()
    states = trans = 0
    cases_by_n, tabs, nontriv, samples = {}, {}, set(), []
    stats = {"multiset": 0, "weighted_only": 0}
    for n, r in sorted(results.items()):
        if r.invariant_violated:
            raise lib.MachineryError(f"the model itself violates {r.invariant_violated} (specification error): " + r.out[-1500:])
        lib.require_ok(r, f"ShadowsGen n={n}")
        states += r.distinct
        trans += r.generated
        tab = [j for j in r.json_lines if j["kind"] == "tab"]
        cases = [j for j in r.json_lines if j["kind"] == "case"]
        if len(tab) != 1 or len(cases) < 10:
            raise lib.MachineryError("generator emitted too little")
        cases_by_n[n], tabs[n] = cases, tab[0]
    for n in sorted(cases_by_n):
        T = check_tables(ctx, n, tabs[n], rng)
        ham_ops = [ham_op(h, T["labels"], n, i % 3) for i, h in enumerate(hams[n])]
        ham_rows = np.zeros((len(T["rows"]), len(ham_ops)))
        for t in range(len(T["rows"])):
            one = qp.ClassicalShadow(T["bits"][t:t + 1], T["recipes"][t:t + 1], wire_map=T["labels"])
            ham_rows[t] = np.asarray(one.expval(ham_ops, k=1), dtype=float).reshape(-1)
            exp = [sum(tm["c"] / 2 ** tm["k"] * T["exp_est"][t][tm["w"]] for tm in h) for h in hams[n]]
            ctx.cmp(f"expval_sum_row:n={n}:t={t}", "ClassicalShadow.expval(sum of Paulis) on one snapshot vs linear combination of tr(Snapshot P)",
                    ham_rows[t], np.array(exp), {"n": n, "row": t, "hams": hams[n]})
        for case in cases_by_n[n]:
            ok, rho = check_case(ctx, n, case, T, hams[n], ham_ops, ham_rows, stats)
            off = np.abs(rho - np.diag(np.diag(rho))).max()
            if ok and off > 1e-9:
                nontriv.add((n, np.round(rho, 9).tobytes()))
                if len(samples) < 4 and len(case["circ"]) >= 2 and (len(samples) < 2 or dyadic(case["q"]) is None):
                    samples.append({"n": n, "circuit": [f"{g['g']}{g['w']}" for g in case["circ"]],
                                    "rho_first_row": [repr(complex(np.round(z, 6))) for z in rho[0]],
                                    "P(b|recipe=XX..)": [round(float(sc(x).real), 6) for x in case["q"][0]],
                                    "expvals(I..,..)": [round(float(sc(x).real), 6) for x in case["ev"][:4]]})
    # ---------------------------------------------------------------- device traces through Trace_Shadows.tla
    recs, metas = device_traces(cases_by_n, rng, tier)
    n_dev = 0
    for meta, rec in zip(metas, recs):
        if rec is None:
            ctx.viol.append(Violation(key=f"device_exception:{meta['dev']}", detail=f"{meta['exception']} for {meta}", replay=meta))
    live = [(m, r) for m, r in zip(metas, recs) if r is not None]
    # negative controls (must be rejected by TLC): an impossible outcome (|0> measured in Z reads 1), a recipe out of range,
    # a wrong shape
    nosev = {"hassev": False, "sev": [], "sevint": []}
    neg = [dict({"n": 1, "ops": [], "ws": [1], "T": 3, "shape": [2, 3, 1], "isint": True, "samples": [{"r": [2], "b": [1], "c": 3}], "words": []}, **nosev),
           dict({"n": 1, "ops": [], "ws": [1], "T": 3, "shape": [2, 3, 1], "isint": True, "samples": [{"r": [3], "b": [0], "c": 3}], "words": []}, **nosev),
           dict({"n": 1, "ops": [], "ws": [1], "T": 3, "shape": [3, 2, 1], "isint": True, "samples": [{"r": [2], "b": [0], "c": 3}], "words": []}, **nosev),
           # |0>: the only possible estimates of Z are 0 and +3, so shadow_expval(Z) = -1 (m = -1) is infeasible
           {"n": 1, "ops": [], "ws": [1], "T": 3, "shape": [2, 3, 1], "isint": True, "samples": [{"r": [2], "b": [0], "c": 3}], "words": [[3]],
            "hassev": True, "sev": [-1], "sevint": [True]}]
    if live:
        neg.append(dict(live[0][1], T=live[0][1]["T"] + 1))      # a real trace with a corrupted shot total
    allrecs = [r for _, r in live] + neg
    wd = lib.workdir("C60", "trace")
    (wd / "traces.json").write_text(json.dumps(allrecs))
    rt = lib.run_tlc("Trace_Shadows", lib.cfg(constants={"M": M, "NCASES": len(allrecs)}), wd, env={"TRACE_FILE": str(wd / "traces.json")},
                     timeout=3000)
    lib.require_ok(rt, "Trace_Shadows")
    states += rt.distinct
    trans += rt.generated
    verd = {j["tid"]: j for j in rt.json_lines}
    if len(verd) != len(allrecs) or len([t for t in rt.tuples if t and t[0] == "V"]) != len(allrecs):
        raise lib.MachineryError("Trace_Shadows verdicts are not total")
    exp_neg = ["impossible_outcome", "form", "form", "shadow_expval_infeasible", "form"]
    neg_rej = 0
    for i, _ in enumerate(neg):
        v = verd[len(live) + i + 1]["verdict"]
        if v != exp_neg[i]:
            raise lib.MachineryError(f"negative control {i} got verdict {v!r}, expected {exp_neg[i]!r}")
        neg_rej += 1
    devs, n_sexp, unmapped, drift_ex = {}, 0, 0, []
    for i, (meta, rec) in enumerate(live):
        v = verd[i + 1]
        n_dev += 1
        devs[meta["dev"]] = devs.get(meta["dev"], 0) + 1
        std = "standard" if meta["labels"] == list(range(meta["n"])) else "nonstandard"
        if v["verdict"] == "shadow_expval_infeasible":
            wi = sorted(v["inf"])
            ctx.viol.append(Violation(key=f"shadow_expval_infeasible:{meta['dev']}:{std}_labels",
                                      detail=f"qp.shadow_expval on {meta['dev']}(wires={meta['labels']}) {meta['ops']} returned {meta['shadow_expval']} for words "
                                             f"{rec['words']} on wires {meta['wires']}: the value(s) at position(s) {wi} cannot be produced by any {rec['T']} "
                                             f"snapshots of non-zero probability (exact expectations {meta['exact_ev']})",
                                      replay={"meta": meta, "trace": rec}))
            continue
        if v["verdict"] != "ok":
            bad = rec["samples"][v["bad"] - 1] if v["bad"] else None
            ctx.viol.append(Violation(key=f"device:{v['verdict']}:{meta['dev']}",
                                      detail=f"classical_shadow on {meta['dev']} {meta['ops']} wires={meta['wires']}: {v['verdict']}"
                                             + (f"; row recipes={bad['r']} bits={bad['b']} has exact probability 0" if bad else f"; shape {rec['shape']}"),
                                      replay={"meta": meta, "trace": rec}))
            continue
        # shadow_expval with the same seeds: the exact estimator sums from TLC divided by T
        exp = np.array([sc(x).real for x in v["sums"]]) / rec["T"]
        if meta["shadow_expval"] is None:
            unmapped += std == "nonstandard"
            ctx.viol.append(Violation(key=f"shadow_expval_exception:{meta['dev']}:{meta['shadow_expval_exception'].split(':')[0]}:{std}_labels",
                                      detail=f"qp.shadow_expval raised {meta['shadow_expval_exception']} on {meta['dev']}(wires={meta['labels']}) "
                                             f"{meta['ops']} for words {rec['words']} on wires {meta['wires']}", replay={"meta": meta}))
            continue
        got = np.array(meta["shadow_expval"])
        n_sexp += 1
        ctx.n_eval += 1
        if not close(got, exp):
            # TLC found the value feasible, but it is not what classical_shadow + ClassicalShadow.expval give with the same seeds:
            # a different random stream is mechanism, not the property
            drift_ex.append({"meta": meta, "same_seed_expectation": exp.tolist()})
            ctx.drift += 1
    # ---------------------------------------------------------------- comparator negative controls
    T1 = tabs[min(tabs)]
    bad = ring_matrix_to_numpy(T1["snap"][0][0], M).copy()
    bad[0, -1] = -bad[0, -1]
    tmp = Ctx()
    sh = qp.ClassicalShadow(np.zeros((1, min(tabs)), dtype=np.int8), np.zeros((1, min(tabs)), dtype=np.int8))
    tmp.cmp("neg", "neg", np.asarray(sh.global_snapshots())[0], bad, None)
    c0 = next(c for c in cases_by_n[min(tabs)] if len(c["circ"]) >= 1)
    tmp.cmp("neg2", "neg2", np.array([sc(x).real for x in c0["ev"]]) + np.array([0, 1e-6] + [0] * (4 ** min(tabs) - 2)), np.array([sc(x).real for x in c0["ev"]]), None)
    if len(tmp.viol) != 2:
        raise lib.MachineryError("comparator negative control accepted")
    neg_rej += 2
    if stats["multiset"] == 0 or stats["weighted_only"] == 0 or n_dev == 0:
        raise lib.MachineryError(f"vacuity: {stats}, device traces {n_dev}")
    cov = {"states": states, "transitions": trans, "traces_validated_against_impl": n_dev + sum(len(c) for c in cases_by_n.values()),
           "evaluations": ctx.n_eval, "distinct_nontrivial": len(nontriv),
           "rule": "ShadowsGen.tla enumerates all circuits of <= MaxLen gates over {H,S,T,CNOT}; non-trivial = distinct density matrices with a "
                   "non-zero off-diagonal entry whose weighted snapshot average, Pauli estimates and sums all matched",
           "samples": samples, "exhaustive": True, "circuits_per_n": {str(n): len(c) for n, c in cases_by_n.items()},
           "max_len_per_n": {str(n): plan[n] for n in plan},
           "rows_enumerated_per_n": {str(n): 6 ** n for n in cases_by_n}, "pauli_words_per_n": {str(n): 4 ** n for n in cases_by_n},
           "states_with_dyadic_probabilities_fed_as_exact_multiset": stats["multiset"], "states_with_irrational_probabilities_weighted": stats["weighted_only"],
           "device_traces": devs, "shadow_expval_compared": n_sexp, "shadow_expval_keyerror_on_nonstandard_wire_labels": unmapped, "model_drift": ctx.drift, "drift_examples": drift_ex[:3], "negative_controls_rejected": neg_rej,
           "sums": {str(n): hams[n] for n in hams},
           "tlc": {"invariants": ["Unbiased", "RefSane"], "gen_wall_s": {str(n): round(r.wall_s, 1) for n, r in results.items()},
                   "trace_wall_s": round(rt.wall_s, 1)}}
    return CheckResult(coverage=cov, violations=ctx.viol, assumptions=[
        "states are those reachable by <= MaxLen gates of {H,S,T,CNOT} from |0..0> (exact ring states, M=3); unbiasedness is linear in rho, "
        "and these states span the operator space for n <= 2 at the quick bounds",
        "float comparison at 1e-8 against exact ring values; entropy() is not part of the statement and is not checked",
        "device side: form and exact possibility of every sampled row are decided by TLC; sampling frequencies are not tested here (C29)"])


def replay(path, tier, seed):
    """Re-run the (deterministic) check for the recorded tier/seed and keep the violations with the recorded key."""
    from pathlib import Path
    rec_ = json.loads(Path(path).read_text())
    res = run(tier, seed)
    res.violations = [v for v in res.violations if v.key == rec_.get("key")]
    return res
