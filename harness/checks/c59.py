"""C59 Fourier analysis tools are sound  (partial: coefficients / reconstruct are compared as floats with TLC's exact values).

Programs: seeded encoding circuits (1-3 wires) whose gates take  theta_k = sum_i c_ki * x_i + b_k  (repeated encodings, integer and
half-integer scales, offsets, sums of two inputs), interleaved with fixed Clifford+T / lattice rotations, measured in Pauli words.

(S) spectrum containment, exact.  TapeEval.tla evaluates the expectation value EXACTLY at every lattice point of one full period of
    an input (other inputs fixed); SpectrumSupport.tla takes the discrete Fourier transform in the ring (the kernel is a power of
    zeta), checks the inverse transform, and decides  support subseteq reported spectrum  for qnode_spectrum (with classical
    pre-processing) and circuit_spectrum (marked gates, unit scales).  The real QNode is checked to reproduce lattice samples.
(C) fourier.coefficients: the QNode, rescaled to period 2 pi, is handed to coefficients() (plain, low-pass filtered, broadcast);
    the result is compared with the exact coefficients emitted by TLC (1-D scans; 2-D grids 8 x 8 for two inputs).
(R) fourier.reconstruct (nums_frequency and spectra modes, the latter fed with qnode_spectrum's own output) is evaluated at every
    lattice point of the period and compared with TLC's exact values (bridged).
"""
import itertools
import json
import math
import random
import warnings
from fractions import Fraction

import numpy as np

import pennylane as qp
from pennylane import numpy as pnp

from .. import devsim, lib, tapeeval
from ..codec import decode_gate, rec
from ..lib import CheckResult, Violation

PID = "C59"
TOL = 1e-8
TOL_REC = 1e-7

ENC1 = ["RX", "RY", "RZ", "PhaseShift"]
ENC2_2PI = ["IsingXX", "IsingYY", "IsingZZ", "ControlledPhaseShift"]            # expectation values are 2pi-periodic in the angle
ENC2_4PI = ["CRX", "CRY", "CRZ", "SingleExcitation", "IsingXY"]                  # half-integer frequencies


def unit(M):
    return 4.0 * math.pi / (1 << M)


# ------------------------------------------------------------------------------------------------ programs
def gen_program(rng, M, style):
    """style: 'unit' (scale 1, no offsets: circuit_spectrum), 'int' (integer scales), 'half' (half-integer scales),
    'periodic' (2pi-periodic in every input: integer scales, gates with integer frequencies), 'mix' (a gate fed by both inputs),
    'gap' (two non-commuting rotations with different scales: difference frequencies), 'constfirst' (a fixed-angle rotation first)"""
    N = 1 << M
    m = 1 if style == "half" else rng.choice([1, 2, 2])
    if style == "mix":
        m = 2
    n = rng.choice([1, 2, 2, 3]) if style in ("periodic", "int") else rng.choice([2, 2, 3])
    step = [2 if style == "half" else 1] * m                      # lattice units of theta per lattice step of x_i
    budget = (N - 1) // 4                                          # sum_k |c_ki| * step_i * 4 < N  (band limit strictly below Nyquist)
    constfree = rng.random() < 0.5                                 # no fixed-angle parametrised gates around the encoding gates
    ctx = ["g1"] + ([] if constfree else ["r1"]) + (["g2"] if n >= 2 else [])
    ops = devsim.random_circuit(rng, n, M, rng.randint(1, 3), ctx)
    used = [Fraction(0)] * m
    n_enc = rng.randint(2, 5)
    forced = []
    if style == "gap":            # two non-commuting rotations whose scales differ: the difference frequency |c1 - c2| must be reported too
        cs = rng.choice([(Fraction(1), Fraction(3)), (Fraction(2), Fraction(3)), (Fraction(1, 2), Fraction(3, 2)), (Fraction(3), Fraction(-1))])
        m, step = 1, [2 if cs[0].denominator == 2 else 1]
        used = [Fraction(0)]
        ctx = ["g1"] + (["g2"] if n >= 2 else [])                 # no fixed-angle gates in this family
        ops = devsim.random_circuit(rng, n, M, rng.randint(1, 3), ctx)
        forced = [(rng.choice(["RX", "RY"]), cs[0]), ("RZ", cs[1])]
        n_enc = 2
    if style == "constfirst":     # a fixed-angle rotation in front of encoding gates with different spectra
        m, step, n = 1, [1], max(n, 2)
        used = [Fraction(0)]
        ctx = ["g1", "g2"]
        ops = [rec("Hadamard", [1]), rec("Hadamard", [2]), rec(rng.choice(["RX", "RY", "RZ"]), [rng.randint(1, n)], [rng.randrange(1, N)])]
        forced = [(rng.choice(ENC1[:3]), Fraction(1)), (rng.choice(["CRX", "CRY", "CRZ"]), Fraction(1))]
        rng.shuffle(forced)
        n_enc = 2
    for e_i in range(n_enc):
        i = rng.randrange(m)
        if forced:
            c = forced[e_i][1]
        elif style == "unit":
            c = Fraction(1)
        elif style == "half":
            c = rng.choice([Fraction(1, 2), Fraction(1), Fraction(1, 2), Fraction(-1, 2), Fraction(3, 2)])
        else:
            c = Fraction(rng.choice([1, 1, 2, -1, 3, 2]))
        enc = {i: c}
        if style == "mix" and rng.random() < 0.5:
            enc[1 - i] = Fraction(rng.choice([1, -1, 2]))
        if any((used[j] + abs(cc)) * step[j] > budget for j, cc in enc.items()):
            continue
        pool = list(ENC1)
        if n >= 2:
            pool += ENC2_2PI + (ENC2_4PI if style != "periodic" else [])
        name = rng.choice(pool + (["PauliRot", "MultiRZ"] if rng.random() < 0.25 else []))
        if forced:
            name = forced[e_i][0]
        if name == "PauliRot":
            q = rng.randint(1, n)
            g = rec(name, rng.sample(range(1, n + 1), q), [0], [rng.randint(1, 3) for _ in range(q)])
        elif name == "MultiRZ":
            g = rec(name, rng.sample(range(1, n + 1), rng.randint(1, n)), [0])
        else:
            g = rec(name, rng.sample(range(1, n + 1), 1 if name in ENC1 else 2), [0])
        g["enc"] = enc
        g["b"] = 0 if style == "unit" else rng.choice([0, 0, rng.randrange(N)])
        for j, cc in enc.items():
            used[j] += abs(cc)
        ops.append(g)
        ops.extend(devsim.random_circuit(rng, n, M, rng.randint(0, 2), ctx))
    if any(u == 0 for u in used):
        return None
    words = [list(w) for w in itertools.product(range(4), repeat=n) if any(w)]
    return {"M": M, "n": n, "m": m, "ops": ops, "step": step, "bound": [u for u in used], "pws": rng.sample(words, 2),
            "base": [rng.randrange(N) for _ in range(m)], "style": style}


def const_class(prog):
    """request-level class: does the program contain fixed-angle parametrised gates (non-trainable tape parameters)?"""
    return "with-constant-parameter-gates" if any("enc" not in g and g["p"] for g in prog["ops"]) else "no-constant-parameter-gates"


def sig(prog):
    return "+".join(f"{g['g']}*" + ",".join(f"{c}x{i}" for i, c in sorted(g["enc"].items())) for g in prog["ops"] if "enc" in g)


def tlc_ops(prog, a, units):
    """ops at x_i = a[i] * units[i] lattice units of theta"""
    N = 1 << prog["M"]
    out = []
    for g in prog["ops"]:
        if "enc" in g:
            th = g["b"]
            for i, c in g["enc"].items():
                v = c * units[i] * a[i]
                if v.denominator != 1:
                    raise lib.MachineryError("encoding angle off the lattice")
                th += int(v)
            out.append({k: v for k, v in dict(g, p=[th % N]).items() if k not in ("enc", "b")})
        else:
            out.append(g)
    return out


def make_qnode(prog, pw, marked=False):
    M, n = prog["M"], prog["n"]
    dev = qp.device("default.qubit", wires=n)

    def circuit(x):
        for g in prog["ops"]:
            if "enc" in g:
                th = lib.angle_of(g["b"], M)
                for i, c in g["enc"].items():
                    th = th + float(c) * x[i]
                wires = [w - 1 for w in g["w"]]
                if g["g"] == "PauliRot":
                    op = qp.PauliRot(th, "".join("IXYZ"[t] for t in g["x"]), wires=wires)
                else:
                    op = getattr(qp, g["g"])(th, wires=wires)
                if marked:
                    qp.fourier.mark(op, f"x{list(g['enc'])[0]}")
            else:
                decode_gate(g, M)
        return qp.expval(devsim.word_op(pw, list(range(n))))

    return qp.QNode(circuit, dev)


def xvalue(prog, a, units):
    return np.array([a[i] * float(units[i]) * unit(prog["M"]) for i in range(prog["m"])])


def ring_vec(j, M):
    """zeta^j as a coefficient vector"""
    N = 1 << M
    H = N // 2
    r = j % N
    v = [0] * H
    if r < H:
        v[r] = 1
    else:
        v[r - H] = -1
    return v


class Ctx:
    def __init__(self):
        self.viol, self.keys, self.counts = [], set(), {}
        self.nontrivial, self.samples, self.rejections = set(), [], []

    def inc(self, k, n=1):
        self.counts[k] = self.counts.get(k, 0) + n

    def violate(self, key, detail, replay=None):
        if key not in self.keys:
            self.keys.add(key)
            self.viol.append(Violation(key=key, detail=detail, replay=replay))


def call(fn):
    with warnings.catch_warnings(record=True) as ws:
        warnings.simplefilter("always")
        try:
            return fn(), "", [str(w.message)[:70] for w in ws]
        except Exception as e:           # noqa: BLE001
            return None, f"{type(e).__name__}: {str(e)[:100]}", [str(w.message)[:70] for w in ws]


def run_level(ctx, rng, M, styles, n2d, stats):
    N = 1 << M
    u = unit(M)
    progs = []
    for st in styles:
        for _ in range(40):
            p = gen_program(rng, M, st)
            if p is not None:
                progs.append(p)
                break
    for p in progs:
        ctx.inc("programs_" + const_class(p))
    # ------------------------------------------------------------------ exact scans: 1-D (all N points of a period of x_i)
    tcases, scans = [], []
    for pi, p in enumerate(progs):
        units = [Fraction(s) for s in p["step"]]
        for i in range(p["m"]):
            scans.append({"prog": pi, "input": i, "dims": [N, 1], "off": len(tcases), "units": units, "kind": "1d"})
            for a in range(N):
                pt = list(p["base"])
                pt[i] = a
                tcases.append({"n": p["n"], "ops": tlc_ops(p, pt, units), "meas": [{"t": "expval", "pw": w} for w in p["pws"]]})
    # 2-D grids 8 x 8 over [0, 2pi)^2 for 2pi-periodic programs with two inputs (band limit 3)
    G2 = 8
    twod = [pi for pi, p in enumerate(progs) if p["style"] == "periodic" and p["m"] == 2 and max(p["bound"]) <= 3][:n2d]
    for pi in twod:
        p = progs[pi]
        units = [Fraction(N, 2 * G2)] * 2                       # 2pi / 8 in lattice units
        scans.append({"prog": pi, "input": None, "dims": [G2, G2], "off": len(tcases), "units": units, "kind": "2d"})
        for a1 in range(G2):
            for a2 in range(G2):
                tcases.append({"n": p["n"], "ops": tlc_ops(p, [a1, a2], units), "meas": [{"t": "expval", "pw": w} for w in p["pws"]]})
    raw, st = tapeeval.evaluate(PID, tcases, M, name=f"scan{M}", raw=True)
    stats["states"] += st["distinct"]
    stats["transitions"] += st["generated"]
    ctx.inc("exact_function_values", len(tcases) * 2)

    def exact(sc, oi, k):
        x = raw[sc["off"] + k]["meas"][oi][0]
        return lib.ring_to_complex(x["c"], x["k"], M).real

    # ------------------------------------------------------------------ implementation: spectra
    qn = {}
    for pi, p in enumerate(progs):
        for oi, pw in enumerate(p["pws"]):
            qn[(pi, oi)] = make_qnode(p, pw)
    spectra = {}          # (pi, oi) -> {input: [freqs]} from qnode_spectrum ; ("c", pi, oi) from circuit_spectrum
    for pi, p in enumerate(progs):
        xb = pnp.array(xvalue(p, p["base"], [Fraction(s) for s in p["step"]]), requires_grad=True)
        for oi in range(2):
            out, exc, _ = call(lambda: qp.fourier.qnode_spectrum(qn[(pi, oi)])(xb))
            ctx.inc("qnode_spectrum_calls")
            if out is None:
                ctx.inc("qnode_spectrum_rejections")
                ctx.rejections.append(f"{sig(p)}: {exc}")
                continue
            try:
                spectra[(pi, oi)] = {i: [float(w) for w in out["x"][(i,)]] for i in range(p["m"])}
            except Exception as e:           # noqa: BLE001
                ctx.violate(f"qnode_spectrum:malformed-result:{sig(p)}", f"result {out!r}: {e}", {"program": p})
            if p["style"] == "unit":
                qm = make_qnode(p, p["pws"][oi], marked=True)
                out, exc, _ = call(lambda: qp.fourier.circuit_spectrum(qm)(xb))
                ctx.inc("circuit_spectrum_calls")
                if out is None:
                    ctx.inc("circuit_spectrum_rejections")
                    ctx.rejections.append(f"circuit_spectrum {sig(p)}: {exc}")
                else:
                    spectra[("c", pi, oi)] = {i: [float(w) for w in out.get(f"x{i}", [])] for i in range(p["m"])}
        # the real QNode reproduces the exact lattice samples (binds the program encoding to the real circuit)
        for sc in [s for s in scans if s["prog"] == pi and s["kind"] == "1d"]:
            for a in (rng.randrange(N), rng.randrange(N)):
                pt = list(p["base"])
                pt[sc["input"]] = a
                val = float(qn[(pi, 0)](pnp.array(xvalue(p, pt, sc["units"]), requires_grad=False)))
                ctx.inc("qnode_lattice_samples_checked")
                if abs(val - exact(sc, 0, a)) > TOL:
                    ctx.violate(f"qnode-differs-from-exact-value:{sig(p)}", f"QNode {val!r} vs exact {exact(sc, 0, a)!r} at lattice point {pt}", {"program": p})
    # ------------------------------------------------------------------ TLC: exact DFT, support containment
    traces, tmeta = [], []

    def idx_of(freqs, per2pi):
        out = set()
        for w in freqs:
            k = abs(w) * per2pi
            if abs(k - round(k)) < 1e-6:
                out.add(int(round(k)))
        return sorted(out)

    for si, sc in enumerate(scans):
        p = progs[sc["prog"]]
        size = sc["dims"][0] * sc["dims"][1]
        for oi in range(2):
            f = [raw[sc["off"] + k]["meas"][oi][0] for k in range(size)]
            if sc["kind"] == "1d":
                per2pi = 2 * p["step"][sc["input"]]                # period of x_i is N * step * 4pi/N = 4pi * step
                for which in ("q", "c"):
                    key = (sc["prog"], oi) if which == "q" else ("c", sc["prog"], oi)
                    if key not in spectra:
                        continue
                    traces.append({"g": sc["dims"], "f": f, "decl": [idx_of(spectra[key][sc["input"]], per2pi), []]})
                    tmeta.append({"scan": si, "oi": oi, "tool": "qnode_spectrum" if which == "q" else "circuit_spectrum", "per2pi": per2pi,
                                  "reported": spectra[key][sc["input"]]})
                if (sc["prog"], oi) not in spectra:                 # still needed for coefficients / reconstruct
                    traces.append({"g": sc["dims"], "f": f, "decl": [list(range(N)), []]})
                    tmeta.append({"scan": si, "oi": oi, "tool": None, "per2pi": per2pi, "reported": None})
            else:
                key = (sc["prog"], oi)
                decl = [idx_of(spectra[key][d], 1) for d in range(2)] if key in spectra else [list(range(G2)), list(range(G2))]
                traces.append({"g": sc["dims"], "f": f, "decl": decl})
                tmeta.append({"scan": si, "oi": oi, "tool": "qnode_spectrum-2d" if key in spectra else None, "per2pi": 1,
                              "reported": spectra.get(key)})
    # hand-written controls: F(x) = 2 cos(2 * 2pi x / P) sampled on N points
    cosf = [{"c": [a + b for a, b in zip(ring_vec(2 * a_, M), ring_vec(-2 * a_, M))], "k": 0} for a_ in range(N)]
    controls = [("declared", {"g": [N, 1], "f": cosf, "decl": [[2], []]}, "ok"),
                ("undeclared", {"g": [N, 1], "f": cosf, "decl": [[1, 3], []]}, "undeclared-frequency-input-1"),
                ("constant-declared-empty", {"g": [N, 1], "f": [{"c": ring_vec(0, M), "k": 1}] * N, "decl": [[], []]}, "ok")]
    base = len(traces)
    traces += [c[1] for c in controls]
    wd = lib.workdir(PID, f"dft{M}")
    (wd / "traces.json").write_text(json.dumps(traces))
    r = lib.run_tlc("SpectrumSupport", lib.cfg(constants={"M": M, "NTRACES": len(traces)}), wd, env={"TRACE_FILE": str(wd / "traces.json")})
    lib.require_ok(r, "SpectrumSupport")
    stats["states"] += r.distinct
    stats["transitions"] += r.generated
    out = {j["tid"] - 1: j for j in r.json_lines}
    if len(out) != len(traces):
        raise lib.MachineryError("SpectrumSupport: verdicts not total")
    for k, (name, _, want) in enumerate(controls):
        j = out[base + k]
        if j["v"] != want or not j["inv"]:
            raise lib.MachineryError(f"SpectrumSupport control {name}: verdict {j['v']} (expected {want}), inverse transform {j['inv']}")
        if name == "declared":
            c2 = lib.ring_to_complex(j["coef"][2][0], j["K"], M) / N
            if abs(c2 - 1.0) > 1e-12 or j["sa"] != [2]:
                raise lib.MachineryError("SpectrumSupport control: wrong coefficient for cos")
    ctx.inc("negative_controls_rejected")
    coefs = {}            # (scan, oi) -> numpy array of exact coefficients indexed [k1][k2]
    supports = {}         # (scan, oi) -> exact support of a 1-D scan (indices)
    for k, tm in enumerate(tmeta):
        j = out[k]
        sc = scans[tm["scan"]]
        p = progs[sc["prog"]]
        if j["v"] == "bad-trace" or not j["inv"]:
            raise lib.MachineryError(f"SpectrumSupport: {j['v']} / inverse transform failed on a recorded scan")
        size = sc["dims"][0] * sc["dims"][1]
        supports[(tm["scan"], tm["oi"])] = list(j["sa"])
        coefs[(tm["scan"], tm["oi"])] = np.array([[lib.ring_to_complex(e, j["K"], M) for e in row] for row in j["coef"]]) / size
        if tm["tool"] is None:
            continue
        ctx.inc("spectra_validated_by_tlc")
        nz = len([x for x in j["sa"] if x]) + len([x for x in j["sb"] if x])
        if j["v"] != "ok":
            true_f = [x / tm["per2pi"] for x in j["sa"]] if sc["kind"] == "1d" else {"x0": j["sa"], "x1": j["sb"]}
            ctx.violate(f"{tm['tool']}:undeclared-frequency:{const_class(p)}:{sig(p)}",
                        f"{j['v']}: exact spectrum of input {sc['input']} has frequencies {true_f}, reported {tm['reported']}; program {sig(p)} "
                        f"observable {p['pws'][tm['oi']]} base point {p['base']} (lattice 4pi/{N})", {"program": p, "observable": p["pws"][tm["oi"]]})
        elif nz:
            ctx.nontrivial.add((tm["tool"], M, sc["prog"], sc["input"], tm["oi"]))
            if len(ctx.samples) < 3 and tm["tool"] == "qnode_spectrum" and len(j["sa"]) >= 3 and all(s_["program"] != sig(p) for s_ in ctx.samples):
                ctx.samples.append({"program": sig(p), "observable": p["pws"][tm["oi"]], "input": sc["input"],
                                    "exact_frequencies": [x / tm["per2pi"] for x in j["sa"]], "reported_by_qnode_spectrum": tm["reported"]})
    # ------------------------------------------------------------------ coefficients() and reconstruct()
    for si, sc in enumerate(scans):
        p = progs[sc["prog"]]
        for oi in range(2):
            C = coefs.get((si, oi))
            if C is None:
                continue
            q = qn[(sc["prog"], oi)]
            if sc["kind"] == "1d":
                i = sc["input"]
                per2pi = 2 * p["step"][i]
                d = int(p["bound"][i] * per2pi)                   # band limit (index), < N/2 by construction
                xb = xvalue(p, p["base"], sc["units"])

                def g1(t, i=i, xb=xb, per2pi=per2pi, q=q):
                    x = [xb[j] + 0.0 * t[0] if j != i else per2pi * t[0] for j in range(len(xb))]
                    return q(np.stack([np.asarray(v) for v in x]))

                variants = [("plain", dict(degree=d)), ("lowpass", dict(degree=max(1, d // 2), lowpass_filter=True, filter_threshold=d))]
                if oi == 0:
                    variants.append(("broadcast", dict(degree=d, use_broadcasting=True)))
                for name, kw in variants:
                    got, exc, _ = call(lambda: qp.fourier.coefficients(g1, 1, **kw))
                    ctx.inc("coefficients_calls")
                    if got is None:
                        if name == "broadcast":
                            ctx.inc("coefficients_broadcast_rejections")
                            ctx.rejections.append(f"coefficients broadcast {sig(p)}: {exc}")
                        else:
                            ctx.violate(f"coefficients:{name}:raised:{sig(p)}", f"coefficients raised {exc}", {"program": p, "kwargs": kw})
                        continue
                    dd = kw["degree"]
                    want = np.array([C[k % N][0] for k in list(range(0, dd + 1)) + list(range(-dd, 0))])
                    got = np.asarray(got)
                    compare_coeffs(ctx, f"coefficients:{name}", p, got, want, {"program": p, "observable": p["pws"][oi], "input": i, "kwargs": kw},
                                   nontriv=(M, si, oi, name))
                # reconstruct
                xarg = pnp.array(xb, requires_grad=True)
                modes = []
                supp = supports.get((si, oi))
                if supp is not None:                               # the exact spectrum of this scan (TLC), as frequencies of x_i
                    modes.append(("spectra", dict(spectra={"x": {(i,): sorted({0.0} | {k / per2pi for k in supp})}})))
                periodic = p["step"][i] == 1 and all(g["g"] not in ENC2_4PI for g in p["ops"] if "enc" in g and i in g["enc"])
                if periodic:
                    modes.append(("nums_frequency", dict(nums_frequency={"x": {(i,): int(p["bound"][i])}})))
                for name, kw in modes:
                    recs, exc, ws = call(lambda: qp.fourier.reconstruct(q, {"x": [(i,)]}, **kw)(xarg))
                    ctx.inc("reconstruct_calls")
                    if recs is None:
                        ctx.violate(f"reconstruct:{name}:raised:{sig(p)}", f"reconstruct raised {exc}", {"program": p, "kwargs": str(kw)})
                        continue
                    if any("condition number" in w for w in ws):
                        ctx.inc("reconstruct_ill_conditioned_skipped")
                        continue
                    fn = recs["x"][(i,)]
                    worst, at = 0.0, None
                    # Dirichlet-kernel mode: the points x0 + 2 pi k (k != 0) are removable 0/0 singularities of the kernel formula; they are
                    # judged separately under one key
                    special = {(p["base"][i] + N // 2) % N} if name == "nums_frequency" else set()
                    for a in range(N):
                        xv = a * p["step"][i] * u
                        e = abs(float(fn(pnp.array(xv))) - exact(sc, oi, a))
                        if a in special:
                            ctx.inc("reconstruct_dirichlet_singular_points_evaluated")
                            if e > TOL_REC:
                                ctx.violate("reconstruct:nums_frequency:wrong-at-reconstruction-point-plus-2pi",
                                            f"the Dirichlet-kernel reconstruction evaluated at x0 + 2pi (x_{i} = {a} * 4pi/{N}, x0 = {p['base'][i]} * 4pi/{N}) returns "
                                            f"{float(fn(pnp.array(xv)))!r}, exact value {exact(sc, oi, a)!r} (error {e:.3g}); {kw}; program {sig(p)} observable {p['pws'][oi]}",
                                            {"program": p, "observable": p["pws"][oi], "kwargs": str(kw)})
                            continue
                        if e > worst:
                            worst, at = e, a
                    ctx.inc("reconstruct_points_compared", N)
                    amp = max(abs(exact(sc, oi, a) - exact(sc, oi, 0)) for a in range(N))
                    if worst > TOL_REC:
                        ctx.violate(f"reconstruct:{name}:differs:{sig(p)}",
                                    f"reconstruction differs from the exact value by {worst:.3g} at x_{i} = {at} * {p['step'][i]} * 4pi/{N}; {kw}; program {sig(p)} "
                                    f"observable {p['pws'][oi]} base {p['base']}", {"program": p, "observable": p["pws"][oi], "kwargs": str(kw)})
                    elif amp > 1e-6:
                        ctx.nontrivial.add(("reconstruct", name, M, si, oi))
                        ctx.inc("reconstructions_exact_nontrivial")
                    # comparator control
                    if amp > 1e-3 and ctx.counts.get("reconstruct_controls", 0) < 2:
                        a = max(range(N), key=lambda a_: abs(exact(sc, oi, a_) - exact(sc, oi, 0)))
                        if abs(float(fn(pnp.array(a * p["step"][i] * u + 0.05))) - exact(sc, oi, a)) <= TOL_REC and worst <= TOL_REC:
                            raise lib.MachineryError("reconstruct comparator accepts a shifted evaluation point")
                        ctx.inc("reconstruct_controls")
            else:
                d = 3
                xq = q

                def g2(t, xq=xq):
                    return xq(np.array([t[0], t[1]]))

                for name, kw in (("plain-2d", dict(degree=d)), ("lowpass-2d", dict(degree=(1, 2), lowpass_filter=True, filter_threshold=(3, 3)))):
                    got, exc, _ = call(lambda: qp.fourier.coefficients(g2, 2, **kw))
                    ctx.inc("coefficients_calls")
                    if got is None:
                        ctx.violate(f"coefficients:{name}:raised:{sig(p)}", f"coefficients raised {exc}", {"program": p, "kwargs": kw})
                        continue
                    dg = kw["degree"] if isinstance(kw["degree"], tuple) else (kw["degree"],) * 2
                    ks = [list(range(0, dd + 1)) + list(range(-dd, 0)) for dd in dg]
                    want = np.array([[C[k1 % G2][k2 % G2] for k2 in ks[1]] for k1 in ks[0]])
                    compare_coeffs(ctx, f"coefficients:{name}", p, np.asarray(got), want, {"program": p, "observable": p["pws"][oi], "kwargs": str(kw)},
                                   nontriv=(M, si, oi, name))


def compare_coeffs(ctx, tool, p, got, want, replay, nontriv):
    if got.shape != want.shape:
        ctx.violate(f"{tool}:shape:{sig(p)}", f"result shape {got.shape}, expected {want.shape}", replay)
        return
    e_plus = float(np.max(np.abs(got - want)))
    e_conj = float(np.max(np.abs(got - np.conj(want))))
    ctx.inc("coefficient_entries_compared", int(want.size))
    asym = float(np.max(np.abs(want.imag)))
    if e_plus <= TOL:
        ctx.inc("coefficients_match_exp_plus_ikx_convention" if asym > 1e-6 else "coefficients_match_real_case")
    elif e_conj <= TOL:
        ctx.inc("coefficients_match_exp_minus_ikx_convention")
    else:
        k = np.unravel_index(int(np.argmax(np.abs(got - want))), want.shape)
        ctx.violate(f"{tool}:wrong:{sig(p)}", f"coefficient at array index {tuple(int(x) for x in k)}: got {complex(got[k])!r}, exact {complex(want[k])!r} "
                    f"(max error {e_plus:.3g}; against the conjugate convention {e_conj:.3g}); program {sig(p)}", replay)
        return
    if float(np.max(np.abs(want.flatten()[1:]))) > 1e-6:
        ctx.nontrivial.add(("coefficients",) + tuple(nontriv))
        ctx.inc("coefficient_sets_exact_nontrivial")
    # comparator control (hand-made corruption of the EXPECTED value)
    if ctx.counts.get("coefficient_controls", 0) < 2:
        bad = want.copy().reshape(-1)
        bad[-1] += 1e-4
        if float(np.max(np.abs(got.reshape(-1) - bad))) <= TOL:
            raise lib.MachineryError("coefficient comparator accepted a corrupted expectation")
        ctx.inc("coefficient_controls")


def run(tier, seed):
    rng = random.Random(5900 + seed)
    ctx = Ctx()
    stats = {"states": 0, "transitions": 0}
    if tier == "quick":
        run_level(ctx, rng, 4, ["unit", "unit", "int", "int", "half", "half", "periodic", "periodic", "periodic", "periodic", "mix", "constfirst", "constfirst"], 2, stats)
        run_level(ctx, rng, 5, ["int", "half", "mix", "gap", "gap"], 0, stats)
    else:
        run_level(ctx, rng, 4, ["unit", "int", "half", "periodic", "periodic", "mix", "constfirst"] * 8, 8, stats)
        run_level(ctx, rng, 5, ["unit", "int", "half", "periodic", "mix", "gap", "gap"] * 5, 2, stats)
    c = ctx.counts
    if __import__("os").environ.get("VERIF_DEBUG"):
        for v in ctx.viol:
            print("DEBUG", v.key, "|", v.detail[:200])
    if c.get("spectra_validated_by_tlc", 0) < 20 or c.get("coefficient_sets_exact_nontrivial", 0) + len([v for v in ctx.viol if v.key.startswith("coefficients")]) < 10 \
            or c.get("reconstruct_points_compared", 0) < 100 or c.get("circuit_spectrum_calls", 0) < 2:
        raise lib.MachineryError(f"vacuity: {c}")
    if c.get("coefficient_controls", 0) < 1 or c.get("reconstruct_controls", 0) < 1:
        raise lib.MachineryError("comparator controls did not run")
    cov = {"states": stats["states"], "transitions": stats["transitions"], "traces_validated_against_impl": c.get("spectra_validated_by_tlc", 0),
           "evaluations": c.get("qnode_spectrum_calls", 0) + c.get("circuit_spectrum_calls", 0) + c.get("coefficients_calls", 0) + c.get("reconstruct_calls", 0),
           "distinct_nontrivial": len(ctx.nontrivial),
           "rule": "non-trivial = (tool, program, input, observable) whose exact spectrum / coefficient set / reconstructed function is not constant and on which "
                   "the tool agreed with TLC's exact values",
           "samples": ctx.samples, "exhaustive": False, "rejections": ctx.rejections[:8], **c}
    cov["negative_controls_rejected"] = c.get("negative_controls_rejected", 0) + c.get("coefficient_controls", 0) + c.get("reconstruct_controls", 0)
    return CheckResult(coverage=cov, violations=ctx.viol, assumptions=[
        "partial: spectrum containment is exact (ring DFT of exact samples); coefficients() and reconstruct() are float results compared at 1e-8 / 1e-7 with "
        "TLC's exact values",
        "a frequency could hide behind a zero coefficient at the sampled base point / observable (two observables and one base point per program)",
        "band limits are kept strictly below the Nyquist index of the lattice (4pi/16: |w| <= 3.5, 4pi/32: |w| <= 7.5 for unit steps)",
        "fourier.coefficients documents f = sum c_n e^{-inx} but computes the coefficient of e^{+inx} (numpy FFT convention); either convention is accepted "
        "when used consistently for a whole result, the counts are in the evidence"])
