"""C26 default.qubit simulates every circuit exactly (analytic mode).  REPLAY: seeded generator of circuits over the
reference gate table (every specialised kernel's gate, symbolic wrappers, state preparation, broadcasting, mixed wire
labels), TapeEval.tla computes the exact state / expectation values / probabilities, the driver executes the same tape
on default.qubit under the numpy / autograd / jax / torch interfaces and compares every measurement."""
import random

import numpy as np

import pennylane as qp

from .. import devsim, lib, tapeeval
from ..codec import decode_gate, rec
from ..lib import CheckResult, Violation

M = 4


def gen_cases(tier, seed):
    rng = random.Random(2600 + seed)
    cases = []
    nrand = 230 if tier == "quick" else 4000
    for i in range(nrand):
        n = rng.choice([1, 2, 2, 3, 3, 3, 4, 4, 5]) if i % 25 else rng.choice([7, 8, 9])
        L = rng.randint(1, 10 if n <= 5 else 6)
        circ = devsim.random_circuit(rng, n, M, L)
        prep = None
        r = rng.random()
        if r < 0.15:
            prep = ("basis", [rng.randint(0, 1) for _ in range(n)])
        elif r < 0.3 and n <= 5:
            prep = ("state", devsim.random_circuit(rng, n, M, rng.randint(1, 4), ["g1", "r1", "g2"]))
        meas = devsim.random_meas(rng, n)
        if rng.random() < 0.3:
            meas.append(("state",))
        bidx = None
        if rng.random() < 0.25:
            cand = [k for k, g in enumerate(circ) if len(g["p"]) == 1 and not g["mods"] and g["g"] not in ("GlobalPhase",)]
            if cand:
                bidx = (rng.choice(cand), [rng.randrange(16) for _ in range(3)])
        cases.append({"n": n, "circ": circ, "prep": prep, "meas": meas, "labels": devsim.labels_for(rng, n), "batch": bidx,
                      "devwires": rng.random() < 0.7})
    # targeted family: the state is ALREADY batched (broadcast rotation first) when each specialised kernel's gate is
    # applied in every wire orientation (reversed CNOT / Toffoli / SWAP / CZ ..., controls after targets)
    import itertools
    spec = [("PauliX", 1), ("PauliZ", 1), ("Hadamard", 1), ("S", 1), ("T", 1), ("SX", 1), ("CNOT", 2), ("CZ", 2), ("SWAP", 2),
            ("ISWAP", 2), ("CY", 2), ("Toffoli", 3), ("CSWAP", 3), ("CCZ", 3)]
    fam = []
    for name, ar in spec:
        for n in (3, 4):
            for w in itertools.permutations(range(1, n + 1), ar):
                fam.append((name, n, list(w)))
    rng.shuffle(fam)
    for name, n, w in fam[:(45 if tier == "quick" else len(fam))]:
        pre = [rec("Hadamard", [k]) for k in range(1, n + 1) if rng.random() < 0.7] + [rec("RX", [rng.randint(1, n)], [5])]
        circ = pre + [rec("T", [rng.randint(1, n)]), rec(name, w), rec("RY", [rng.randint(1, n)], [3])]
        cases.append({"n": n, "circ": circ, "prep": None, "meas": [("state",), ("probs", list(range(1, n + 1)))],
                      "labels": devsim.labels_for(rng, n), "batch": (len(pre) - 1, [rng.randrange(16) for _ in range(3)]), "devwires": True})
    return cases


def prep_gates(prep):
    if prep is None:
        return []
    if prep[0] == "basis":
        return [rec("PauliX", [i + 1]) for i, b in enumerate(prep[1]) if b]
    return prep[1]


def run(tier, seed):
    cases = gen_cases(tier, seed)
    # --- exact oracle
    tcases, owner = [], []
    for ci, c in enumerate(cases):
        req, _ = devsim.tlc_meas(c["meas"])
        variants = [None] if c["batch"] is None else list(range(3))
        for v in variants:
            circ = [dict(g) for g in c["circ"]]
            if v is not None:
                circ[c["batch"][0]] = dict(circ[c["batch"][0]], p=[c["batch"][1][v]])
            tcases.append({"n": c["n"], "ops": prep_gates(c["prep"]) + circ, "meas": req})
            owner.append((ci, v))
        if c["prep"] and c["prep"][0] == "state":
            tcases.append({"n": c["n"], "ops": c["prep"][1], "meas": [{"t": "state"}]})
            owner.append((ci, "prep"))
    res, stats = tapeeval.evaluate("C26", tcases, M)
    by_case = {}
    for (ci, v), r in zip(owner, res):
        by_case.setdefault(ci, {})[v] = r
    viol, n_cmp, n_exec, kernels, samples = [], 0, 0, {}, []
    interfaces = ["numpy", "autograd", "jax", "torch"]
    nontriv = set()
    for ci, c in enumerate(cases):
        n, labels = c["n"], c["labels"]
        ops = []
        if c["prep"] and c["prep"][0] == "basis":
            ops.append(qp.BasisState(np.array(c["prep"][1]), wires=labels))
        elif c["prep"]:
            vec = np.asarray(by_case[ci]["prep"]["meas"][0]).reshape(-1)
            ops.append(qp.StatePrep(vec, wires=labels))
        gates = [decode_gate(g, M, labels) for g in c["circ"]]
        if c["batch"] is not None:
            k, angs = c["batch"]
            g = c["circ"][k]
            arr = np.array([lib.angle_of(a, M) for a in angs])
            gates[k] = (qp.PauliRot(arr, gates[k].hyperparameters["pauli_word"], wires=gates[k].wires) if g["g"] == "PauliRot"
                        else type(gates[k])(arr, wires=gates[k].wires))
        ops += gates
        meas = [m for m in c["meas"] if c["devwires"] or m[0] != "state"] or [("probs", list(range(1, n + 1)))]
        mps = devsim.pl_measurements(meas, labels)
        tape = qp.tape.QuantumScript(ops, mps)
        dev = qp.device("default.qubit", wires=labels) if c["devwires"] else qp.device("default.qubit")
        for g in c["circ"]:
            kernels[g["g"]] = kernels.get(g["g"], 0) + 1
        for itf in (interfaces if ci % 4 == 0 else ["numpy", interfaces[1 + ci % 3]]):
            key = f"{itf}|n={n}"
            try:
                t2 = devsim.convert_tape(tape, itf)
                out = qp.execute([t2], dev, diff_method=None)[0]
                n_exec += 1
            except Exception as e:
                viol.append(Violation(key=f"exception:{itf}:{type(e).__name__}", detail=f"{type(e).__name__}: {e} on {tape.operations} {mps}",
                                      replay={"case": c, "interface": itf}))
                continue
            outs = out if isinstance(out, tuple) else (out,)
            variants = [None] if c["batch"] is None else [0, 1, 2]
            for v in variants:
                exp = devsim.expected_values(meas if True else c["meas"], _restrict(by_case[ci][v], c["meas"], meas), n)
                for mi, (m, e) in enumerate(zip(meas, exp)):
                    got = outs[mi]
                    got = qp.math.toarray(got) if not isinstance(got, (float, np.ndarray)) else got
                    if v is not None:
                        got = np.asarray(got)[v]
                    n_cmp += 1
                    if not devsim.close(got, e):
                        viol.append(Violation(key=f"{m[0]}:{itf}:mismatch", detail=f"{m} on {[str(o) for o in ops]} ({itf}): got {np.asarray(got).round(6).tolist()} expected {np.asarray(e).round(6).tolist()}",
                                              replay={"case": c, "interface": itf, "measurement": list(m)}))
                    else:
                        nontriv.add((ci, mi))
        if len(samples) < 3 and len(c["circ"]) >= 4:
            samples.append({"n": n, "labels": labels, "ops": [str(o) for o in ops], "measurements": [str(m) for m in mps]})
    # negative control: a perturbed expectation must be rejected by the comparator
    if devsim.close(np.array([0.5, 0.5]), np.array([0.5, 0.5 + 1e-6])):
        raise lib.MachineryError("negative control accepted")
    cov = {"states": stats["distinct"], "transitions": stats["generated"], "traces_validated_against_impl": n_exec,
           "evaluations": n_cmp, "distinct_nontrivial": len(nontriv),
           "rule": "seeded random circuits (1-9 wires, 1-10 gates) over the reference table incl. adjoint/pow/controlled wrappers, state "
                   "preparation, broadcasting, mixed labels; non-trivial = distinct (circuit, measurement) pairs whose value was compared",
           "samples": samples, "gate_kinds_exercised": kernels, "interfaces": interfaces, "ring_level_M": M,
           "negative_controls_rejected": 1, "circuits": len(cases)}
    return CheckResult(coverage=cov, violations=viol, assumptions=[
        "angles on the lattice 4*pi/16; density matrices, purities and entropies are computed from TLC's exact state with numpy",
        "float comparison at 1e-8"])


def _restrict(res, all_meas, meas):
    """TapeEval result for the full measurement list -> result record laid out for the (possibly shorter) list `meas`."""
    if len(all_meas) == len(meas):
        return res
    req_all, idx_all = devsim.tlc_meas(all_meas)
    out = [res["meas"][0]]
    for m in meas:
        j = all_meas.index(m)
        kind, pos = idx_all[j]
        if kind == "pw" or kind == "probs":
            out.append(res["meas"][pos])
        elif kind == "ham":
            out += [res["meas"][pos + t] for t in range(len(m[1]))]
    return {"meas": out, "bw": res["bw"]}
