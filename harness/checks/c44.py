"""C44 Shots specifications are interpreted consistently.

(M) ShotsSpec.tla states the documented meaning of a shot specification as pure operators on the EXPANDED LIST of shot
    counts (total, iteration, run-length shot vector, bins, partitioned flag, + = concatenation, * = element-wise floor).
    ShotsGen.tla enumerates every specification up to the bound and TLC checks the algebraic laws of the specification
    itself on each (invariant Laws).
(R) spec -> code: TLC emits, per enumerated case, the expected observable view; the driver builds the same specification
    with the real class (Shots(x), a + b / add_shots, a * k / k * a) and compares every observable.
(T) code -> spec: seeded larger specifications are run through the real class, one JSON record per call with everything
    the class returned; Trace_Shots.tla recomputes the documented view and prints a verdict per record."""
import json
import random

import pennylane as qp

from .. import lib
from ..lib import CheckResult, Violation

Shots = qp.measurements.Shots
FIELDS = ["total", "list", "vec", "bins", "part", "ncopies"]
NAMES = {"total": "total_shots", "list": "iteration", "vec": "shot_vector", "bins": "bins", "part": "has_partitioned_shots",
         "ncopies": "num_copies"}
NONE = {"k": "none", "n": 0, "e": []}


def build(s, variant=0):
    """encoded specification -> the Python argument of Shots(...)"""
    if s["k"] == "none":
        return None
    if s["k"] == "int":
        return s["n"]
    ents = [n if c == 0 else ((n, c) if (i + variant) % 2 else [n, c]) for i, (n, c) in enumerate(s["e"])]
    return tuple(ents) if variant % 2 else ents


def observe(sh):
    """Everything observable about a Shots object, through its public interface only."""
    return {"exc": "", "total": -1 if sh.total_shots is None else int(sh.total_shots), "list": [int(x) for x in sh],
            "vec": [[int(sc.shots), int(sc.copies)] for sc in sh.shot_vector],
            "bins": [[int(lo), int(hi)] for lo, hi in sh.bins()],
            "part": bool(sh.has_partitioned_shots), "ncopies": int(sh.num_copies)}


EMPTY = {"total": -2, "list": [], "vec": [], "bins": [], "part": False, "ncopies": -1}


def scalar(p, q, variant=0):
    if q == 1:
        return float(p) if variant % 3 == 2 else p
    return p / q          # q is a power of two: the float is exact


def call(case, variant=0):
    """Run one case on the real class; returns a list of (how, observation) - several call forms per case."""
    outs = []

    def rec(how, f):
        try:
            outs.append((how, observe(f())))
        except Exception as e:  # noqa: BLE001 - the exception class is the recorded outcome
            outs.append((how, dict(EMPTY, exc=type(e).__name__)))
    a = case["a"]
    if case["op"] == "one":
        rec("Shots(a)", lambda: Shots(build(a, variant)))
    elif case["op"] == "add":
        rec("a + b", lambda: Shots(build(a, variant)) + Shots(build(case["b"], variant + 1)))
        rec("add_shots(a, b)", lambda: qp.measurements.add_shots(Shots(build(a, variant + 1)), Shots(build(case["b"], variant))))
    else:
        k = scalar(case["p"], case["q"], variant)
        rec("a * k", lambda: Shots(build(a, variant)) * k)
        rec("k * a", lambda: k * Shots(build(a, variant)))
    return outs


def compare(obs, exp):
    """first differing observable, or None"""
    if obs["exc"]:
        return "exception:" + obs["exc"]
    for f in FIELDS:
        if obs[f] != exp[f]:
            return NAMES[f]
    return None


def rand_spec(rng):
    r = rng.random()
    if r < 0.04:
        return dict(NONE)
    if r < 0.10:
        return {"k": "int", "n": rng.randint(1, 20000), "e": []}
    pool = [rng.randint(1, 5000) for _ in range(rng.randint(1, 4))]       # few distinct values -> adjacent repeats happen
    ents = []
    for _ in range(rng.randint(1, 8)):
        n = rng.choice(pool)
        ents.append([n, 0] if rng.random() < 0.5 else [n, rng.randint(1, 5)])
    return {"k": "seq", "n": 0, "e": ents}


def rand_case(rng):
    r = rng.random()
    if r < 0.4:
        return {"op": "one", "a": rand_spec(rng), "b": dict(NONE), "p": 1, "q": 1}
    if r < 0.7:
        a = rand_spec(rng)
        b = rand_spec(rng)
        if b["k"] == "seq" and a["k"] == "seq" and rng.random() < 0.5:
            b["e"][0][0] = a["e"][-1][0]                                  # the seam merges
        return {"op": "add", "a": a, "b": b, "p": 1, "q": 1}
    q = rng.choice([1, 1, 2, 4, 8])
    return {"op": "scale", "a": rand_spec(rng), "b": dict(NONE), "p": rng.randint(1, 4 * q), "q": q}


def n_entries(s):
    return len(s["e"]) if s["k"] == "seq" else (1 if s["k"] == "int" else 0)


def run(tier, seed):
    quick = tier == "quick"
    consts = {"Counts": "{1,2,3,10}", "Copies": "{1,2,3}", "MaxLen": 3 if quick else 4,
              "ACounts": "{1,2,3}" if quick else "{1,2,3,10}", "ACopies": "{1,2}", "AMaxLen": 2}
    scalars = [(1, 1), (2, 1), (3, 1), (1, 2), (3, 2), (5, 2), (1, 4), (7, 4)]
    wd = lib.workdir("C44", "gen")
    g = lib.run_tlc_mc("ShotsGen", {"Scalars": "{" + ",".join(f"<<{p},{q}>>" for p, q in scalars) + "}"}, wd, constants=consts,
                       invariants=["Laws"], timeout=3000)
    if g.invariant_violated:
        raise lib.MachineryError("ShotsSpec violates its own algebraic laws (oracle error): " + g.out[-1500:])
    lib.require_ok(g, "ShotsGen")
    cases = g.json_lines
    if len(cases) < 1000:
        raise lib.MachineryError("generator produced too few cases")
    viol, seen_keys = [], {}

    def flag(op, how, clause, case, exp, obs, origin):
        key = f"{op}:{clause}"
        seen_keys[(key, origin)] = seen_keys.get((key, origin), 0) + 1
        if seen_keys[(key, origin)] > 2:
            return
        viol.append(Violation(key=key, detail=f"{how}: {clause} disagrees with the expanded list for {json.dumps(case)}: "
                                             f"expected {json.dumps(exp)} got {json.dumps(obs)} [{origin}]",
                              replay={"case": case, "expected": exp, "observed": obs, "call": how}))
    # ---------------------------------------------------------------- (R) replay of every TLC case
    n_eval, nontriv, samples = 0, set(), []
    cnt = {"merge_across_entries": 0, "merge_at_add_seam": 0, "merge_created_by_scaling": 0, "none_operand": 0,
           "scale_out_of_domain": 0, "scale_out_of_domain_raised": 0, "float_scalars": 0}
    for i, item in enumerate(cases):
        c, exp = item["c"], item["exp"]
        outs = call(c, variant=i)
        n_eval += len(outs)
        if not item["def"]:
            cnt["scale_out_of_domain"] += 1
            cnt["scale_out_of_domain_raised"] += all(o["exc"] for _, o in outs)
            continue
        bad = False
        for how, o in outs:
            cl = compare(o, exp)
            if cl:
                bad = True
                flag(c["op"], how, cl, c, exp, o, "replay of TLC case")
        ne = n_entries(c["a"]) + (n_entries(c["b"]) if c["op"] == "add" else 0)
        merged = len(exp["vec"]) < ne
        if c["op"] == "one" and merged:
            cnt["merge_across_entries"] += 1
        if c["op"] == "add":
            if c["a"]["k"] == "none" or c["b"]["k"] == "none":
                cnt["none_operand"] += 1
            elif c["a"]["e"] and c["b"]["e"] and c["a"]["e"][-1][0] == c["b"]["e"][0][0]:
                cnt["merge_at_add_seam"] += 1
        if c["op"] == "scale":
            cnt["float_scalars"] += c["q"] > 1
            la = [n for n, k in c["a"]["e"] for _ in range(max(k, 1))] if c["a"]["k"] == "seq" else []
            if any(x != y for x, y in zip(la, la[1:])) and len(exp["vec"]) < sum(1 for x, y in zip(la, la[1:]) if x != y) + 1:
                cnt["merge_created_by_scaling"] += 1
        if not bad and (merged or (c["op"] != "one" and exp["part"])):
            nontriv.add(json.dumps(c, sort_keys=True))
            if len(samples) < 3 and merged and c["op"] in ("one", "add", "scale")[len(samples):len(samples) + 1]:
                samples.append({"case": c, "expected": exp})
    # negative control of the comparator: un-merge the expected shot vector of a merging case
    neg_rej = 0
    for item in cases:
        e = item["exp"]
        if item["c"]["op"] == "one" and any(k > 1 for _, k in e["vec"]) and len(item["c"]["a"]["e"]) >= 2:
            badexp = dict(e, vec=[[n, 1] for n in e["list"]])
            if compare(dict(e, exc=""), badexp) != "shot_vector" or compare(dict(e, exc=""), e) is not None:
                raise lib.MachineryError("negative control accepted by the comparator")
            neg_rej += 1
            break
    if not neg_rej:
        raise lib.MachineryError("no merging case available for the negative control")
    # ---------------------------------------------------------------- (T) recorded calls on seeded larger inputs
    rng = random.Random(seed)
    n_rand = 4000 if quick else 40000
    recs, meta = [], []
    for i in range(n_rand):
        c = rand_case(rng)
        for how, o in call(c, variant=i)[: 1 if i % 3 else 2]:
            recs.append(dict(c, out=o))
            meta.append((how, c))
    # negative controls: a record that is right in every field except one -> the trace spec must reject exactly that field.
    # Base records are chosen by their INPUTS and the values are built from the inputs (not from what the implementation returned).
    neg = {}
    for f in ("total", "vec", "bins", "list", "part"):
        for j, r in enumerate(recs):
            if r["op"] != "one" or r["a"]["k"] != "seq":
                continue
            lst = [n for n, k in r["a"]["e"] for _ in range(max(k, 1))]
            if len(lst) < 3 or len(set(lst)) < 2 or all(x != y for x, y in zip(lst, lst[1:])) or lst in (sorted(lst), sorted(lst, reverse=True)):
                continue
            runs = []
            for n in lst:
                if runs and runs[-1][0] == n:
                    runs[-1][1] += 1
                else:
                    runs.append([n, 1])
            acc = [sum(lst[:k]) for k in range(len(lst) + 1)]
            o2 = {"exc": "", "total": sum(lst), "list": lst, "vec": runs, "bins": [[acc[k], acc[k + 1]] for k in range(len(lst))],
                  "part": True, "ncopies": len(lst)}
            o2[f] = {"total": sum(lst) + 1, "vec": [[n, 1] for n in lst], "bins": [[lo, hi + 1] for lo, hi in o2["bins"]],
                     "list": sorted(lst), "part": False}[f]
            neg[len(recs) + len(neg)] = (f, dict(r, out=o2), j)
            break
    if len(neg) < 5:
        raise lib.MachineryError("could not build the trace negative controls")
    allrecs = recs + [neg[k][1] for k in sorted(neg)]
    wd2 = lib.workdir("C44", "trace")
    (wd2 / "traces.json").write_text(json.dumps(allrecs))
    r = lib.run_tlc("Trace_Shots", lib.cfg(init="TInit", next_="TNext", constants={"NTRACES": len(allrecs)}), wd2,
                    env={"TRACE_FILE": str(wd2 / "traces.json")}, timeout=3000)
    lib.require_ok(r, "Trace_Shots")
    verd = {t[1] - 1: (t[2], t[3]) for t in r.tuples if t[0] == "V"}
    if len(verd) != len(allrecs):
        raise lib.MachineryError(f"verdicts not total: {len(verd)} of {len(allrecs)}")
    nneg = 0
    for k, (f, _, base) in neg.items():
        if verd[k][0] != NAMES[f]:
            raise lib.MachineryError(f"negative control '{f}' not rejected by Trace_Shots (verdict {verd[k]})")
        nneg += 1
    t_undef, t_merge = 0, 0
    for j, (how, c) in enumerate(meta):
        v, dom = verd[j]
        if dom == "undef":
            t_undef += 1
            continue
        o = recs[j]["out"]
        ents = [n for sp in (c["a"], c["b"]) if sp["k"] == "seq" for n, k in sp["e"]]      # vacuity is judged on the inputs
        has_merge = c["op"] != "scale" and len(set(ents)) >= 2 and any(x == y for x, y in zip(ents, ents[1:]))
        t_merge += has_merge
        if v != "ok":
            flag(c["op"], how, v, c, "(recomputed by Trace_Shots.tla)", o, "recorded call validated by TLC")
        elif has_merge:
            nontriv.add(json.dumps(c, sort_keys=True))
            if len(samples) < 5 and c["op"] == "add" and len(o["list"]) > 8:
                samples.append({"recorded": recs[j], "verdict": v})
    cov = {"states": g.distinct + r.distinct, "transitions": g.generated + r.generated,
           "traces_validated_against_impl": len(recs), "evaluations": n_eval + len(recs),
           "distinct_nontrivial": len(nontriv),
           "rule": "ShotsGen.tla enumerates every specification up to the bound (None, ints, sequences of ints and (shots, copies) pairs) and "
                   "all pairs/scalars for + and *; non-trivial = distinct case that agreed on every observable and either merges adjacent equal "
                   "counts across entries or is a +/* case with a partitioned result; plus recorded seeded Shots(x) / + cases with >= 2 distinct "
                   "counts and at least one merge of adjacent equal entries",
           "samples": samples, "exhaustive": True,
           "model": {"module": "ShotsSpec", "invariant": "Laws (RLE/UnRLE inverse and canonical, bins contiguous and summing to total, "
                                                         "add = concatenation laws, scale floor bounds and composition)",
                     "cases": len(cases), "bounds": consts, "scalars": [f"{p}/{q}" for p, q in scalars]},
           "replayed_tlc_cases": len(cases), "recorded_seeded_calls": len(recs), "recorded_with_merge": t_merge,
           "recorded_scale_out_of_domain": t_undef, "tlc_wall_s": [round(g.wall_s, 1), round(r.wall_s, 1)], "negative_controls_rejected": neg_rej + nneg, **cnt}
    for k in ("merge_across_entries", "merge_at_add_seam", "merge_created_by_scaling", "none_operand", "float_scalars"):
        if not cnt[k]:
            raise lib.MachineryError(f"vacuous: branch '{k}' never exercised")
    if t_merge < 100:
        raise lib.MachineryError("vacuous: too few recorded cases with merges")
    return CheckResult(coverage=cov, violations=viol, assumptions=[
        "scalars are integers or dyadic rationals (exact in float64); scaling that takes a count below 1 is outside the documented "
        "domain and only counted",
        "shot counts < 2^30 (TLC integers); abstract (traced) shot values are not covered"])
