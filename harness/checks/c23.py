"""C23 Compile pipelines compose transforms and route results correctly.

(M) TLC model-checks two specifications:
    * spec/sys/PipelineApply.tla -- the stack-of-slices algorithm of CompilePipeline.__call_tapes, step by step, against the
      reference semantics R(t, pipe) ("apply the transforms one after another by hand") for EVERY pipeline of up to
      MaxStages fan-out tables (fan-out 0 / 1 / many per tape colour) and every batch: Routing, SlicesCover, Shape;
      a mutated model (slices that do not advance) must violate Routing (negative control of the invariant).
    * spec/sys/Pipeline.tla -- the construction API as a list model (PipelineOps.Eff), all call histories up to MaxSteps and
      random deeper ones (simulation): MkInBounds, AtMostOneFinal, ConvOK, ExpandPaired.
(C) spec -> code (REPLAY): every TLC application case is rebuilt from synthetic qp.transform objects (fan-out table and
    post-processing tag from TLC, tape identity in a gate parameter, execution = the tape's tag) and run through the real
    CompilePipeline, through transform(tape) recursively and through transform(batch) stage by stage; the three results
    are compared with TLC's expected terms.  Every TLC edit history is replayed against a real CompilePipeline, comparing
    acceptance, sequence and returned transform after each call.
    code -> spec (TRACE): every distinct observed call (previous state, call, observed outcome incl. markers) is validated
    by spec/trace/Trace_Pipeline.tla; the fan-out structure / slices / result counts of every real run (synthetic and
    real transforms: split_non_commuting, broadcast_expand) by spec/trace/Trace_PipelineApply.tla.
    Real-transform pipelines are executed on default.qubit and compared numerically with the by-hand application.
    Configured expand pairs: the kinds x(7) / x(c=7) in the list model (companion expand entry bound to the same configuration),
    and in the application replay a transform + expand_transform pair whose fan-out tables are selected by a positional /
    keyword argument, placed through the constructor, +, append, add_transform and insert.
    Classical cotransforms: pipelines whose last stage has one are model-checked with per-tape Jacobian nodes and replayed
    through a real QNode + CotransformCache (the Jacobian of a synthetic tape is its identity); param_shift after a fan-out
    into RX(t), RX(t^2), ... is compared with the by-hand chain rule (per-circuit Jacobians) and finite differences."""
import copy
import json
import os
import random
import re
import time
import warnings
from concurrent.futures import ThreadPoolExecutor

import numpy as np

import pennylane as qp
from pennylane import CompilePipeline
from pennylane.transforms.core import BoundTransform, transform

from .. import lib
from ..lib import CheckResult, Violation

NONE = 99
# scratch directory: private to this process (./check C23 is also run concurrently, e.g. against seeded worktrees, and
# run.py removes .work/C23 when a run ends); removed at the end of run() unless VERIF_KEEP is set
PID = f"C23.{os.getpid()}"

# ============================================================================ construction API
def _ident(tape):
    return (tape,), (lambda r: r[0])


def _mkfn(name):
    def f(tape, c=0):
        return (tape,), (lambda r: r[0])
    f.__name__ = name
    return f


_RAW = {k: _mkfn(k) for k in ("a", "b", "f", "x", "g", "xe", "ge")}
KIND = {"a": transform(_RAW["a"]), "b": transform(_RAW["b"]), "f": transform(_RAW["f"], final_transform=True),
        "x": transform(_RAW["x"], expand_transform=_RAW["xe"]),
        "g": transform(_RAW["g"], expand_transform=_RAW["ge"], final_transform=True),
        "xe": transform(_RAW["xe"]), "ge": transform(_RAW["ge"])}
EXPANDS = {"x", "g", "xp", "xk"}
CFG = 7                        # the configuration value of the kinds "xp" (x(7)) and "xk" (x(c=7))


def _name(t):
    """kind of a pipeline entry: function name + 'p' / 'k' when bound to the positional / keyword configuration"""
    n = t.tape_transform.__name__
    if t.args == (CFG,) and not t.kwargs:
        return n + "p"
    if t.kwargs == {"c": CFG} and not t.args:
        return n + "k"
    if t.args or t.kwargs:
        return f"{n}{t.args}{t.kwargs}"
    return n


def names(p):
    return [_name(t) for t in p]


def _obj(k, variant, exact=False):
    """the object handed to the API for kind k (Transform, BoundTransform, or a transform called with its configuration)"""
    if k == "xp":
        return BoundTransform(KIND["x"], args=(CFG,)) if variant % 2 else KIND["x"](CFG)
    if k == "xk":
        return BoundTransform(KIND["x"], kwargs={"c": CFG}) if variant % 2 else KIND["x"](c=CFG)
    return BoundTransform(KIND[k]) if (variant % 2 or exact) else KIND[k]


def markers(p):
    return {lb: p.get_marker_level(lb) for lb in p.markers}


def mk_list(d):
    return [{"l": lb, "v": int(v)} for lb, v in sorted(d.items())]


def _operand(P, Pm):
    q = CompilePipeline([BoundTransform(KIND[k]) for k in P])
    for m in Pm:
        q.add_marker(m["l"], m["v"])
    return q


def apply_call(p, o, retained, variant):
    """Perform call `o` on pipeline p.  Returns (pipeline after the call, returned kind or "")."""
    op, k, i = o["op"], o["k"], o["i"]
    T = KIND.get(k)
    if op == "init":
        ts = [KIND[x] for x in o["P"]]
        p = CompilePipeline(ts) if (variant % 2 and ts) else CompilePipeline(*ts)
        for m in o["Pm"]:
            p.add_marker(m["l"], m["v"])
        return p, ""
    if op == "append":
        p.append(_obj(k, variant))
        return p, ""
    if op == "addt":
        if k == "xp":
            p.add_transform(KIND["x"], CFG)
        elif k == "xk":
            p.add_transform(KIND["x"], c=CFG)
        else:
            p.add_transform(T)
        return p, ""
    if op == "iadd":
        p += _obj(k, variant)
        return p, ""
    if op == "add":
        retained.append((p, snapshot(p)))
        return p + _obj(k, variant), ""
    if op == "radd":
        retained.append((p, snapshot(p)))
        return _obj(k, variant) + p, ""
    if op in ("iaddP", "addP", "extP"):
        q = _operand(o["P"], o["Pm"])
        retained.append((q, snapshot(q)))
        if op == "iaddP":
            p += q
            return p, ""
        if op == "extP":
            p.extend(q)
            return p, ""
        retained.append((p, snapshot(p)))
        return p + q, ""
    if op == "extL":
        p.extend([KIND[x] for x in o["P"]])
        return p, ""
    if op == "insert":
        p.insert(i, _obj(k, variant))
        return p, ""
    if op == "pop":
        r = p.pop() if i == NONE else p.pop(i)
        return p, _name(r)
    if op == "remove":
        p.remove(_obj(k, variant, exact=k in EXPANDS))      # (a bare Transform would remove every configuration of it)
        return p, ""
    if op == "mul":
        retained.append((p, snapshot(p)))
        return p * i, ""
    if op == "rmul":
        retained.append((p, snapshot(p)))
        return i * p, ""
    if op == "slice":
        retained.append((p, snapshot(p)))
        a, b, s = (None if v == NONE else v for v in (o["i"], o["j"], o["s"]))
        with warnings.catch_warnings():
            warnings.simplefilter("ignore")
            return p[a:b:s], ""
    if op == "get":
        return p, _name(p[i])
    if op == "addm":
        if i == NONE:
            p.add_marker(o["l"])
        else:
            p.add_marker(o["l"], i)
        return p, ""
    if op == "delm":
        p.remove_marker(o["l"])
        return p, ""
    if op == "copy":
        retained.append((p, snapshot(p)))
        return copy.copy(p), ""
    raise lib.MachineryError(f"unknown call {op}")


def snapshot(p):
    return (tuple(names(p)), tuple(sorted(markers(p).items())))


def opclass(o):
    c = o["op"]
    if c in ("mul", "rmul") and o["i"] == 0:
        c += "0"
    if o["k"] in EXPANDS or (c == "extL"):
        c += "+expand"
    if c.startswith("insert") and o["i"] < 0:
        c += "(negative-index)"
    return c


def replay_history(h, variant):
    """Replay one TLC history.  Returns the observed steps [(prev, o, obs, expected, replay_clause)]."""
    p, retained, out = None, [], []
    prev = {"seq": [], "mk": []}
    for stp in h["hist"]:
        o = stp["o"]
        try:
            newp, ret = apply_call(p, o, retained, variant)
            err = ""
        except lib.MachineryError:
            raise
        except Exception as e:  # noqa: BLE001  (the exception class is the observation)
            newp, ret, err = p, "", type(e).__name__
        if newp is None:          # the constructor itself failed
            obs = {"err": err, "seq": [], "ret": "", "mk": [], "intact": True}
            out.append((prev, o, obs, stp, "acceptance-differs"))
            break
        intact = all(snapshot(q) == snap for q, snap in retained if q is not newp)
        obs = {"err": err, "seq": names(newp), "ret": ret, "mk": mk_list(markers(newp)), "intact": bool(intact)}
        clause = ""
        if obs["err"] != stp["err"]:
            clause = "acceptance-differs"
        elif obs["seq"] != stp["seq"]:
            clause = "sequence-changed-by-rejected-call" if stp["err"] else "sequence-differs"
        elif obs["ret"] != stp["ret"]:
            clause = "returned-transform-differs"
        out.append((prev, o, obs, stp, clause))
        if clause:
            break
        p = newp
        prev = {"seq": obs["seq"], "mk": obs["mk"]}
    return out


INITS = ['[P |-> <<>>, Pm |-> <<>>]',
         '[P |-> <<"a","b">>, Pm |-> <<[l |-> "m", v |-> 1], [l |-> "n", v |-> 2]>>]',
         '[P |-> <<"a","x">>, Pm |-> <<[l |-> "m", v |-> 0], [l |-> "n", v |-> 1]>>]',
         '[P |-> <<"b","f">>, Pm |-> <<[l |-> "n", v |-> 1]>>]',
         '[P |-> <<"b","a","g">>, Pm |-> <<[l |-> "m", v |-> 2], [l |-> "n", v |-> 4]>>]',
         '[P |-> <<"x","b","a">>, Pm |-> <<[l |-> "m", v |-> 3]>>]']
OPERANDS = '{[P |-> <<"b">>, Pm |-> <<[l |-> "q", v |-> 0]>>], [P |-> <<"xe","x","f">>, Pm |-> <<[l |-> "q", v |-> 3]>>], ' \
           '[P |-> <<"a","b">>, Pm |-> <<[l |-> "q", v |-> 1]>>]}'
SLICES = "{<<1,99,1>>, <<0,1,1>>, <<99,-1,1>>, <<-2,99,1>>, <<1,2,1>>, <<0,99,1>>, <<99,99,2>>, <<99,99,-1>>, <<2,1,1>>, <<1,3,1>>}"


KINDS = {"quick": ('{"a","f","x","g","xp","xk"}', '{"a","x","xp"}'), "full": ('{"a","b","f","x","g","xp","xk"}', '{"a","x","g","xp","xk"}'),
         "small": ('{"a","f","xp"}', '{"a","xp"}')}


def edit_defs(n_inits, size="full", sample=0):
    small = size == "small"
    return {"Inits": "{" + ", ".join(INITS[:n_inits]) + "}", "Kinds": KINDS[size][0], "RemKinds": KINDS[size][1], "Labels": '{"m","n"}',
            "MulNs": "{-1,0,1,2}" if not small else "{0,2}", "Slices": SLICES if not small else "{<<1,99,1>>, <<0,1,1>>, <<99,-1,1>>}",
            "Operands": OPERANDS, "NegInsert": "TRUE", "Sample": str(sample)}


EDIT_INVS = ["MkInBounds", "AtMostOneFinal", "ConvOK", "ExpandPaired"]


def edit_plan(tier):
    """(name, wrapper constants, MaxSteps, simulate spec) of the PipelineGen runs."""
    if tier == "quick":
        return [("exhaustive", edit_defs(4, "quick"), 2, None), ("simulate", edit_defs(6, sample=5), 6, "num=250")]
    return [("exhaustive", edit_defs(6), 2, None), ("exhaustive-deep", edit_defs(3, "small"), 3, None),
            ("simulate", edit_defs(6, sample=5), 8, "num=20000")]


def edit_generate(job, seed, workers):
    name, defs, steps, sim = job
    kw = dict(simulate=sim, depth=steps + 4, seed=seed + 1, workers=1) if sim else dict(workers=workers)
    g = lib.run_tlc_mc("PipelineGen", defs, lib.workdir(PID, "edit") / name, constants={"MaxSteps": steps}, invariants=EDIT_INVS,
                       init="GInit", next_="GNext", timeout=3000, **kw)
    if g.invariant_violated:
        raise lib.MachineryError(f"the list model violates its own invariant {g.invariant_violated} ({name})")
    lib.require_ok(g, f"PipelineGen/{name}")
    if sim:
        m = re.search(r"The number of states generated: (\d+)", g.out)
        g.generated = g.distinct = int(m.group(1)) if m else 0
    return g


def edit_replay(jobs, results, seed):
    hists, states, trans, seen = [], 0, 0, set()
    model = []
    for (name, defs, steps, sim), g in zip(jobs, results):
        new = 0
        for h in g.json_lines:
            key = json.dumps(h["hist"], sort_keys=True)
            if key not in seen:
                seen.add(key)
                hists.append(h)
                new += 1
        states += g.distinct
        trans += g.generated
        model.append({"run": name, "max_calls": steps, "states": g.distinct, "histories": new, "wall_s": round(g.wall_s, 1),
                      "mode": "simulation (5 random calls per state)" if sim else "exhaustive"})
    hists.sort(key=lambda h: json.dumps(h["hist"], sort_keys=True))         # TLC prints in worker order
    if len(hists) < 1000:
        raise lib.MachineryError(f"edit generator produced too few histories ({len(hists)})")
    # ---- spec -> code: replay, compare after each call
    cases, case_ix = [], {}                     # distinct observed calls for the trace spec
    walks = []                                  # per history: [(case index, replay clause, observed, expected)]
    n_calls = 0
    op_counts = {}
    for hi, h in enumerate(hists):
        steps = replay_history(h, hi)
        walk = []
        for prev, o, obs, exp, clause in steps:
            n_calls += 1
            op_counts[o["op"]] = op_counts.get(o["op"], 0) + 1
            key = json.dumps([prev, o, obs], sort_keys=True)
            if key not in case_ix:
                case_ix[key] = len(cases)
                cases.append({"prev": prev, "o": o, "obs": obs})
            walk.append((case_ix[key], clause, obs, exp))
        walks.append(walk)
    # REPLAY comparator negative control: a corrupted expectation must be noticed
    hneg = copy.deepcopy(next(h for h in hists if len(h["hist"]) >= 2 and len(h["hist"][1]["seq"]) >= 1 and not h["hist"][1]["err"]))
    hneg["hist"][1]["seq"] = hneg["hist"][1]["seq"] + ["a"]
    if not replay_history(hneg, 0)[-1][4]:
        raise lib.MachineryError("edit replay comparator accepted a corrupted expectation")
    neg_ok = 1
    # ---- code -> spec: trace validation of every distinct observed call; negative controls appended
    n_real = len(cases)
    negs = []
    rng = random.Random(seed)
    cand = [i for i in range(n_real) if not cases[i]["obs"]["err"] and len(set(cases[i]["obs"]["seq"])) >= 2]
    for i in rng.sample(cand, min(12, len(cand))):
        c = copy.deepcopy(cases[i])
        s = c["obs"]["seq"]
        j = next(j for j in range(len(s) - 1) if s[j] != s[j + 1])
        s[j], s[j + 1] = s[j + 1], s[j]
        negs.append((len(cases), "sequence"))
        cases.append(c)
    cand = [i for i in range(n_real) if not cases[i]["obs"]["err"] and cases[i]["obs"]["mk"] and cases[i]["o"]["op"] in ("append", "iadd", "pop", "insert")]
    for i in rng.sample(cand, min(12, len(cand))):
        c = copy.deepcopy(cases[i])
        c["obs"]["mk"][0]["v"] = len(c["obs"]["seq"]) + 1          # out of bounds
        negs.append((len(cases), "marker-bounds"))
        cases.append(c)
    cand = [i for i in range(n_real) if not cases[i]["obs"]["err"] and cases[i]["o"]["op"] == "pop" and cases[i]["prev"]["mk"]
            and any(m["v"] >= 2 for m in cases[i]["prev"]["mk"]) and cases[i]["o"]["i"] == 0 and len(cases[i]["obs"]["seq"]) >= 1]
    for i in rng.sample(cand, min(12, len(cand))):
        c = copy.deepcopy(cases[i])
        c["obs"]["mk"] = copy.deepcopy(c["prev"]["mk"])             # pop(0) that forgets to move the markers behind it
        negs.append((len(cases), "marker-order"))
        cases.append(c)
    cand = [i for i in range(n_real) if cases[i]["obs"]["err"]]
    for i in rng.sample(cand, min(6, len(cand))):
        c = copy.deepcopy(cases[i])
        c["obs"]["err"] = ""
        negs.append((len(cases), "acceptance"))
        cases.append(c)
    wd2 = lib.workdir(PID, "edit_trace")
    return {"hists": hists, "cases": cases, "walks": walks, "negs": negs, "n_real": n_real, "neg_ok": neg_ok, "states": states, "trans": trans,
            "model": model, "n_calls": n_calls, "op_counts": op_counts, "wd": wd2}


CHUNK = 40000        # cases per TLC start (a JSON file of > 10^5 records exhausts the heap when deserialised)


class _Merged:
    """verdict tuples of several TLC runs over consecutive chunks, renumbered to global case indices"""

    def __init__(self):
        self.tuples, self.distinct, self.generated = [], 0, 0


def _validate_chunks(module, cases, wd, what):
    out = _Merged()
    for k in range(0, max(len(cases), 1), CHUNK):
        part = cases[k:k + CHUNK]
        f = wd / f"cases_{k // CHUNK}.json"
        f.write_text(json.dumps(part))
        r = lib.run_tlc(module, lib.cfg(init="TInit", next_="TNext", constants={"NCASES": len(part)}), wd / f"chunk{k // CHUNK}",
                        env={"TRACE_FILE": str(f)}, timeout=3000)
        lib.require_ok(r, what)
        out.tuples += [[t[0], t[1] + k] + list(t[2:]) for t in r.tuples if t[0] == "V"]
        out.distinct += r.distinct
        out.generated += r.generated
        f.unlink()
    return out


def edit_validate(ctx):
    return _validate_chunks("Trace_Pipeline", ctx["cases"], ctx["wd"], "Trace_Pipeline")


def edit_judge(ctx, r, cov, viol):
    hists, cases, walks, negs, n_real = ctx["hists"], ctx["cases"], ctx["walks"], ctx["negs"], ctx["n_real"]
    neg_ok, states, trans, model, n_calls, op_counts = ctx["neg_ok"], ctx["states"], ctx["trans"], ctx["model"], ctx["n_calls"], ctx["op_counts"]
    verd = {t[1] - 1: (t[2], t[3]) for t in r.tuples if t[0] == "V"}
    if len(verd) != len(cases):
        raise lib.MachineryError(f"edit verdicts not total: {len(verd)} of {len(cases)}")
    rejected = sum(1 for i, _ in negs if verd[i][0] != "ok")
    if len(negs) < 10 or rejected != len(negs):
        bad = [(kind, cases[i]) for i, kind in negs if verd[i][0] == "ok"][:2]
        raise lib.MachineryError(f"edit negative controls rejected {rejected}/{len(negs)}; accepted: {bad}")
    neg_ok += rejected
    # A history is judged up to its FIRST disagreement only (what follows starts from a state the model does not
    # share); the REPLAY expectations are used only while the observed markers also follow the model's convention.
    drift, undocumented, bad, clean = {}, 0, {}, set()
    for hi, walk in enumerate(walks):
        in_step = True
        for si, (i, rclause, obs, exp) in enumerate(walk):
            clause, dr = verd[i]
            o = cases[i]["o"]
            if o["op"] == "insert" and o["i"] < 0:
                if i not in clean:
                    undocumented += clause != "ok" or bool(rclause)
                clean.add(i)
                break
            first = i not in clean
            clean.add(i)
            if dr != "same" and first:
                drift[dr] = drift.get(dr, 0) + 1
            if clause == "ok" and in_step and rclause:
                clause = rclause                 # the comparator saw a difference the relational validation cannot see
            if clause != "ok":
                key = f"edit:{opclass(o)}:{clause}"
                ent = bad.setdefault(key, {"n": set(), "first": (hi, si, i, obs, exp)})
                ent["n"].add(i)
                break
            if dr != "same":
                in_step = False
    for key in sorted(bad):
        hi, si, i, obs, exp = bad[key]["first"]
        c = cases[i]
        detail = (f"{len(bad[key]['n'])} distinct observed call(s); first: pipeline {c['prev']['seq']} markers "
                  f"{[(m['l'], m['v']) for m in c['prev']['mk']]}, call {_show(c['o'])} -> observed err={c['obs']['err']!r} seq={c['obs']['seq']} "
                  f"markers={[(m['l'], m['v']) for m in c['obs']['mk']]} ret={c['obs']['ret']!r} operands-intact={c['obs']['intact']}; "
                  f"list model: err={exp['err']!r} seq={exp['seq']} markers={[(m['l'], m['v']) for m in exp['mk']]} ret={exp['ret']!r}; "
                  f"failing clause: {key.split(':')[-1]}")
        viol.append(Violation(key=key, detail=detail, replay={"history": [s_["o"] for s_ in hists[hi]["hist"][:si + 1]],
                                                              "shown": [_show(s_["o"]) for s_ in hists[hi]["hist"][:si + 1]], "case": c}))
    nontriv = {json.dumps([c["prev"], c["o"]], sort_keys=True) for i, c in enumerate(cases[:n_real])
               if i in clean and not c["obs"]["err"] and c["prev"]["mk"] and len(c["prev"]["seq"]) >= 2 and c["o"]["op"] not in ("get", "copy", "init")}
    samples = []
    for hi, h in enumerate(hists):
        ops = [s_["o"]["op"] for s_ in h["hist"]]
        if len(samples) < 2 and len(ops) >= 5 - len(samples) and h["hist"][-1]["mk"] and "insert" in ops and ("pop" in ops or "slice" in ops) \
                and all(verd[i] == ("ok", "same") for i, *_ in walks[hi]) and len(walks[hi]) == len(ops):
            samples.append({"construction_history (call -> sequence | markers, model = implementation)":
                            [f"{_show(s_['o'])} -> {' '.join(s_['seq']) or '-'} | {', '.join(m['l'] + '@' + str(m['v']) for m in s_['mk']) or '-'}"
                             + (f"  [{s_['err']}]" if s_["err"] else "") for s_ in h["hist"]]})
    cov.update({"edit_model_runs": model, "edit_histories": len(hists), "edit_calls_replayed": n_calls,
                "edit_distinct_observed_calls": n_real, "edit_distinct_calls_judged": len(clean), "edit_calls_by_kind": dict(sorted(op_counts.items())),
                "edit_final_not_last_histories": sum(1 for h in hists if not h["finalLast"]),
                "edit_model_drift": drift, "edit_undocumented_negative_insert_disagreements": undocumented})
    return {"states": states, "trans": trans, "neg": neg_ok, "traces": len(clean), "evals": n_calls,
            "nontriv": len(nontriv), "samples": samples}


def _show(o):
    op = o["op"]
    v = lambda x: "None" if x == NONE else str(x)  # noqa: E731
    if op == "init":
        return f"CompilePipeline({', '.join(o['P'])}) markers {[(m['l'], m['v']) for m in o['Pm']]}"
    if op in ("append", "addt", "remove"):
        return f"{'add_transform' if op == 'addt' else op}({o['k']})"
    if op in ("iadd", "add"):
        return f"p {'+=' if op == 'iadd' else '+'} {o['k']}"
    if op == "radd":
        return f"{o['k']} + p"
    if op in ("iaddP", "addP", "extP"):
        return f"p {'+=' if op == 'iaddP' else '+' if op == 'addP' else '.extend'} Pipeline({', '.join(o['P'])}; markers {[(m['l'], m['v']) for m in o['Pm']]})"
    if op == "extL":
        return f"extend([{', '.join(o['P'])}])"
    if op == "insert":
        return f"insert({o['i']}, {o['k']})"
    if op in ("pop", "get"):
        return f"pop({'' if o['i'] == NONE else o['i']})" if op == "pop" else f"p[{o['i']}]"
    if op in ("mul", "rmul"):
        return f"p * {o['i']}" if op == "mul" else f"{o['i']} * p"
    if op == "slice":
        return f"p[{v(o['i'])}:{v(o['j'])}:{v(o['s'])}]"
    if op == "addm":
        return f"add_marker({o['l']!r}, {v(o['i'])})"
    if op == "delm":
        return f"remove_marker({o['l']!r})"
    return op


# ============================================================================ application
_TAPES = {}


def syn_tape(tid, c):
    t = _TAPES.get((tid, c))
    if t is None:
        t = _TAPES[(tid, c)] = qp.tape.QuantumScript([qp.RX(float(tid), 0), qp.RY(float(c), 0)], [qp.expval(qp.Z(0))])
    return t


def tape_ident(tape):
    return int(round(float(tape.operations[0].data[0]))), int(round(float(tape.operations[1].data[0])))


_SYN = {}


def syn_raw(stage, table, C, base):
    key = (stage, tuple(table), C, base)
    f = _SYN.get(key)
    if f is None:
        def syn(tape):
            tid, c = tape_ident(tape)
            kids = tuple(syn_tape(tid * base + j, (c + j) % C) for j in range(1, table[c] + 1))

            def post(results):
                return {"k": stage, "t": tid, "a": list(results)}
            return kids, post
        syn.__name__ = f"syn{stage}_{''.join(map(str, table))}"
        f = _SYN[key] = syn
    return f


def cfg_raw(stage, table, maxfan, C, base):
    """synthetic stage whose behaviour depends on a CONFIGURATION argument: sel = 1 selects the TLC table, the default
    (sel = 0, what a stage sees when its configuration got lost) a decoy table that differs for every colour"""
    key = ("cfg", stage, tuple(table), C, base)
    f = _SYN.get(key)
    if f is None:
        decoy = [(x + 1) % (maxfan + 1) for x in table]

        def syn(tape, sel=0):
            tid, c = tape_ident(tape)
            tbl = table if sel == 1 else decoy
            kids = tuple(syn_tape(tid * base + j, (c + j) % C) for j in range(1, tbl[c] + 1))

            def post(results):
                return {"k": stage, "t": tid, "a": list(results), **({} if sel == 1 else {"lost-configuration": sel})}
            return kids, post
        syn.__name__ = f"cfg{stage}_{''.join(map(str, table))}"
        f = _SYN[key] = syn
    return f


PLACEMENTS = ("constructor", "plus", "append", "add_transform", "insert")


def place_configured(pair, rest, how, keyword):
    """pipeline [expand(sel=1), pair(sel=1), *rest] built through one of the public ways, configuration positional or keyword"""
    bound = pair(sel=1) if keyword else pair(1)
    if how == "constructor":
        return CompilePipeline(bound, *rest)
    if how == "plus":
        return (bound + rest[0] + CompilePipeline(*rest[1:])) if rest else (CompilePipeline() + bound)
    if how == "append":
        p = CompilePipeline()
        p.append(bound)
        p.extend(list(rest))
        return p
    if how == "add_transform":
        p = CompilePipeline()
        if keyword:
            p.add_transform(pair, sel=1)
        else:
            p.add_transform(pair, 1)
        p.extend(list(rest))
        return p
    p = CompilePipeline(*rest)
    p.insert(0, bound)
    return p


# ---- classical cotransform: symbolic cases run through a real QNode and the real CotransformCache
def ident2(tape):
    return int(round(float(tape.operations[2].data[0]))), int(round(float(tape.operations[1].data[0])))


def mk2(param, tid, c):
    """tape whose trainable gate parameter is tid * x (x the QNode argument): its classical Jacobian d param / d x IS its identity"""
    return qp.tape.QuantumScript([qp.RX(param, 0), qp.RY(float(c), 0), qp.RZ(float(tid), 0)], [qp.expval(qp.Z(0))], trainable_params=[0])


def syn2_raw(stage, table, C, base):
    def syn(tape):
        tid, c = ident2(tape)
        par = tape.operations[0].data[0]
        kids = tuple(mk2(par * ((tid * base + j) / tid), tid * base + j, (c + j) % C) for j in range(1, table[c] + 1))

        def post(results):
            return {"k": stage, "t": tid, "a": list(results)}
        return kids, post
    syn.__name__ = f"syn{stage}_{''.join(map(str, table))}"
    return syn


def cot_tag(results, cjac, tape):
    """classical cotransform of the synthetic gradient stage: records WHICH tape's classical Jacobian it was given"""
    return {"k": 99, "t": int(round(float(np.asarray(qp.math.unwrap([cjac])[0]).reshape(-1)[0]))), "a": [results]}


_COT_DEV = []


def run_cot_case(case, C, base):
    """last stage with a classical cotransform, on the single tape of a QNode with a trainable argument"""
    from pennylane import numpy as pnp
    if not _COT_DEV:
        _COT_DEV.append(qp.device("default.qubit", wires=1))
    c0 = case["batch"][0]

    @qp.qnode(_COT_DEV[0])
    def circ(x):
        qp.RX(1 * x, 0)
        qp.RY(float(c0), 0)
        qp.RZ(1.0, 0)
        return qp.expval(qp.Z(0))
    q = circ
    n = len(case["pipe"])
    for s_, tbl in enumerate(case["pipe"]):
        raw = syn2_raw(s_ + 1, tbl, C, base)
        q = (transform(raw, classical_cotransform=cot_tag) if s_ == n - 1 else transform(raw))(q)
    x = pnp.array(1.0, requires_grad=True)
    tape = q.construct((x,), {})
    q.compile_pipeline.set_classical_component(q, (x,), {})          # what QNode._impl_call does before execute
    if q.compile_pipeline.cotransform_cache is None:
        raise lib.MachineryError("set_classical_component did not install a CotransformCache")
    batch, fn = q.compile_pipeline((tape,))
    res = tuple({"k": 0, "t": ident2(t)[0], "a": []} for t in batch)
    return list(fn(res)), [ident2(t)[0] for t in batch]


def execute_tags(batch):
    return tuple({"k": 0, "t": tape_ident(t)[0], "a": []} for t in batch)


def by_hand_tape(tape, stages):
    """Apply the transforms one after another, tape by tape (transform(tape) dispatch)."""
    if not stages:
        return {"k": 0, "t": tape_ident(tape)[0], "a": []}
    kids, fn = stages[0](tape)
    return fn(tuple(by_hand_tape(k, stages[1:]) for k in kids))


def term_str(t):
    if t["k"] == 99:
        return f"J[{t['t']}]({term_str(t['a'][0])})"
    return f"E({t['t']})" if t["k"] == 0 else f"P{t['k']}[{t['t']}]({', '.join(term_str(a) for a in t['a'])})"


def _walk_terms(ts):
    for t in ts:
        yield t
        yield from _walk_terms(t["a"])


def _strip_cot(ts):
    """terms with the Jacobian owner of every classical node blanked (to tell a wrong Jacobian from wrong routing)"""
    return [dict(t, t=0 if t["k"] == 99 else t["t"], a=_strip_cot(t["a"])) for t in ts]


def stack_slices(fn):
    try:
        st = fn.keywords["postprocessing_stack"]      # (entries with integer "slices" are classical cotransform entries)
        return [[[s.start, s.stop] for s in f.keywords["slices"]] for f in st if not any(isinstance(s, int) for s in f.keywords["slices"])]
    except Exception:  # noqa: BLE001  (mechanism not observable)
        return None


def apply_consts(tier):
    fan, stages, batch = (2, 3, 2) if tier == "quick" else (3, 3, 3)
    return {"C": 2, "MaxFan": fan, "MaxStages": stages, "MaxBatch": batch, "CotStages": 2 if tier == "quick" else 3, "Muts": "{0,1,2}"}


def apply_generate(tier, workers):
    """one TLC run: the faithful model (mut = 0: invariants, cases emitted) and the two mutated models (negative controls of
    Routing -- 1: slices that do not advance, 2: the classical Jacobian of tape 0 for every tape -- which must produce
    results that differ from the reference terms)"""
    g = lib.run_tlc("PipelineApplyGen", lib.cfg(constants=apply_consts(tier), invariants=["Routing", "SlicesCover", "Shape"], constraints=["Emit"]),
                    lib.workdir(PID, "apply") / "gen", timeout=3000, workers=workers)
    if g.invariant_violated:
        raise lib.MachineryError(f"the application model violates {g.invariant_violated}")
    lib.require_ok(g, "PipelineApplyGen")
    g.caught = {k: sum(1 for t in g.tuples if t[0] == "MUT" and t[1] == k and t[2] == "caught") for k in (1, 2)}
    if not all(g.caught.values()):
        raise lib.MachineryError(f"a mutated application model still satisfies Routing (vacuous invariant): {g.caught}")
    return g


def run_apply(tier, seed, cov, viol, g, m):
    consts = apply_consts(tier)
    C, maxfan, stages, batch = consts["C"], consts["MaxFan"], consts["MaxStages"], consts["MaxBatch"]
    base = maxfan + 1
    neg = 2
    cases = sorted(g.json_lines, key=lambda c: (len(c["pipe"]), c["pipe"], len(c["batch"]), c["batch"], c["cot"]))
    if len(cases) < 500:
        raise lib.MachineryError("application generator produced too few cases")
    bad = {}
    traces = []
    nontriv, samples, cot_samples = 0, [], []
    counts = {"fanout0": 0, "fanout_many": 0, "uneven_nested": 0, "empty_output": 0, "expand_pair_variants": 0, "by_hand": 0,
              "configured_expand_pair_positional": 0, "configured_expand_pair_keyword": 0, "classical_cotransform_cases": 0,
              "classical_cotransform_with_several_tapes": 0}
    placed = {h: 0 for h in PLACEMENTS}

    def differs(key, case, got, how):
        bad.setdefault(key, []).append({"case": {k: case[k] for k in ("pipe", "batch")}, "how": how, "got": got, "expected": case["exp"]})

    for ci, case in enumerate(cases):
        tables = case["pipe"]
        if case["cot"] and len(tables) >= 3 and ci % 8:
            continue                 # (thorough: the 3-stage cotransform cases are all model-checked, one in 8 is replayed)
        if case["cot"]:
            # classical cotransform on the last stage: run through a real QNode + CotransformCache (symbolic Jacobians)
            counts["classical_cotransform_cases"] += 1
            try:
                got, leaves = run_cot_case(case, C, base)
            except lib.MachineryError:
                raise
            except Exception as e:  # noqa: BLE001
                differs("apply:cotransform-exception", case, f"{type(e).__name__}: {e}", "QNode pipeline with classical cotransform")
                continue
            njac = sum(1 for t in _walk_terms(case["exp"]) if t["k"] == 99)
            counts["classical_cotransform_with_several_tapes"] += njac >= 2
            if got != case["exp"]:
                key = "apply:classical-jacobian-of-another-tape" if _strip_cot(got) == _strip_cot(case["exp"]) else \
                    "apply:cotransform-pipeline-result-differs-from-reference-terms"
                differs(key, case, got, "QNode pipeline, last stage with classical cotransform (Node 99 = chained with the Jacobian of tape t)")
            if njac >= 2 and len(cot_samples) < 1:
                cot_samples.append({"fanout_tables": tables, "last stage has a classical cotransform; J[t] = chained with the classical Jacobian of tape t":
                                    [term_str(t) for t in case["exp"]]})
            continue
        raws = [syn_raw(s + 1, tbl, C, base) for s, tbl in enumerate(tables)]
        ts = [transform(f) for f in raws]
        tapes = tuple(syn_tape(i + 1, c) for i, c in enumerate(case["batch"]))
        pipe = CompilePipeline(*ts)
        out_batch, fn = pipe(tapes if ci % 2 else list(tapes))
        got = list(fn(execute_tags(out_batch)))
        if got != case["exp"]:
            differs("apply:pipeline-result-differs-from-reference-terms", case, got, "CompilePipeline(batch)")
        leaves = [tape_ident(t)[0] for t in out_batch]
        sl = stack_slices(fn) if ts else []
        # fan-outs observed by hand, level by level
        fans, level = [], list(tapes)
        for t_ in ts:
            nxt, f_ = [], []
            for tp in level:
                kids, _ = t_(tp)
                f_.append(len(kids))
                nxt.extend(kids)
            fans.append(f_)
            level = nxt
        traces.append({"fans": fans, "nout": len(out_batch), "slices": sl if sl is not None else [], "nres": len(got), "nin": len(tapes)})
        if leaves != case["leaves"] or (sl is not None and sl != case["slices"]):
            cov_d = cov.setdefault("apply_model_drift", {"batch_order_or_slices": 0})
            cov_d["batch_order_or_slices"] += 1
        flat = [x for tbl in tables for x in tbl]
        counts["fanout0"] += 0 in flat and bool(tapes)
        counts["fanout_many"] += any(x > 1 for x in flat) and bool(tapes)
        counts["empty_output"] += bool(tapes) and not out_batch
        uneven = len(fans) >= 2 and len(set(fans[-1])) > 1 and len(set(fans[0])) >= 1 and any(x > 1 for x in fans[0])
        counts["uneven_nested"] += uneven
        if uneven and 0 in fans[-1]:
            nontriv += 1
            if len(samples) < 2 and len(tapes) >= 2 and len(tables) == 3:
                samples.append({"fanout_tables (per stage: colour -> children)": tables, "batch_colours": case["batch"], "executed_tags": leaves,
                                "slices_per_stage": case["slices"], "results (E = executed tape, Pk[t] = post-processing of stage k for tape t)":
                                [term_str(t) for t in case["exp"]]})
        # by hand: tape by tape and stage by stage on the batch; on a share of the cases (all of the interesting ones)
        if uneven or ci % 3 == 0:
            counts["by_hand"] += 1
            bh = [by_hand_tape(t, ts) for t in tapes]
            if bh != case["exp"]:
                differs("apply:by-hand-tape-result-differs-from-reference-terms", case, bh, "transform(tape) recursively")
            b2, fns = tapes, []
            for t_ in ts:
                b2, f2 = t_(b2)
                fns.append(f2)
            r2 = execute_tags(b2)
            for f2 in reversed(fns):
                r2 = f2(r2)
            if list(r2) != case["exp"]:
                differs("apply:by-hand-batch-result-differs-from-reference-terms", case, list(r2), "transform(batch) stage by stage")
        # expand_transform pairing in application: stages 1,2 bundled as one transform with an expand_transform
        if len(ts) >= 2 and (uneven or ci % 5 == 0):
            counts["expand_pair_variants"] += 1
            pair = transform(raws[1], expand_transform=raws[0])
            pipe2 = CompilePipeline(pair, *ts[2:])
            if [t.tape_transform.__name__ for t in pipe2] != [f.__name__ for f in raws]:
                differs("apply:expand-transform-not-placed-before-its-transform", case, [t.tape_transform.__name__ for t in pipe2], "CompilePipeline(T with expand)")
            ob2, fn2 = pipe2(tapes)
            got2 = list(fn2(execute_tags(ob2)))
            if got2 != case["exp"]:
                differs("apply:pipeline-with-expand-pair-differs-from-reference-terms", case, got2, "CompilePipeline(T with expand_transform)")
            bh2 = []
            for tp in tapes:
                kids, f_ = pair(tp)
                bh2.append(f_(tuple(by_hand_tape(k, ts[2:]) for k in kids)))
            if bh2 != case["exp"]:
                differs("apply:by-hand-expand-pair-differs-from-reference-terms", case, bh2, "T(tape) with expand_transform")
            # the same pair CONFIGURED (positionally / by keyword) with an argument both halves use
            keyword = (ci // 5) % 3 == 2
            how = PLACEMENTS[(ci // 3) % 5]
            counts["configured_expand_pair_keyword" if keyword else "configured_expand_pair_positional"] += 1
            placed[how] += 1
            pairc = transform(cfg_raw(2, tables[1], maxfan, C, base), expand_transform=cfg_raw(1, tables[0], maxfan, C, base))
            tag = f"{'keyword' if keyword else 'positional'}-configuration"
            try:
                pipe3 = place_configured(pairc, ts[2:], how, keyword)
                ob3, fn3 = pipe3(tapes)
                got3 = list(fn3(execute_tags(ob3)))
                bh3 = []
                for tp in tapes:
                    kids, f_ = pairc(tp, sel=1) if keyword else pairc(tp, 1)
                    bh3.append(f_(tuple(by_hand_tape(k, ts[2:]) for k in kids)))
            except Exception as e:  # noqa: BLE001
                differs(f"apply:configured-expand-pair:{tag}:exception", case, f"{type(e).__name__}: {e}", how)
                continue
            if got3 != case["exp"]:
                differs(f"apply:configured-expand-pair:{tag}:pipeline-differs-from-reference-terms", case, got3,
                        f"pipeline built by {how} from T({'sel=1' if keyword else '1'}) with expand_transform")
            if bh3 != case["exp"]:
                differs(f"apply:configured-expand-pair:{tag}:by-hand-differs-from-reference-terms", case, bh3, "T(tape, configuration)")
    # REPLAY comparator negative control: swap two leaves of an expected term
    cneg = copy.deepcopy(next(c for c in cases if len(c["leaves"]) >= 2 and len(c["pipe"]) >= 1 and not c["cot"]))
    flat_terms = []

    def walk(t):
        if t["k"] == 0:
            flat_terms.append(t)
        for a in t["a"]:
            walk(a)
    for t in cneg["exp"]:
        walk(t)
    flat_terms[0]["t"], flat_terms[1]["t"] = flat_terms[1]["t"], flat_terms[0]["t"]
    ts = [transform(syn_raw(s + 1, tbl, C, base)) for s, tbl in enumerate(cneg["pipe"])]
    ob, fn = CompilePipeline(*ts)(tuple(syn_tape(i + 1, c) for i, c in enumerate(cneg["batch"])))
    if list(fn(execute_tags(ob))) == cneg["exp"]:
        raise lib.MachineryError("application comparator accepted a corrupted expectation")
    neg += 1
    # ... and exchange the owners of two classical Jacobians of an expected cotransform term
    cneg = copy.deepcopy(next(c for c in cases if c["cot"] and sum(1 for t in _walk_terms(c["exp"]) if t["k"] == 99) >= 2))
    jn = [t for t in _walk_terms(cneg["exp"]) if t["k"] == 99]
    jn[0]["t"], jn[1]["t"] = jn[1]["t"], jn[0]["t"]
    if run_cot_case(cneg, C, base)[0] == cneg["exp"]:
        raise lib.MachineryError("cotransform comparator accepted exchanged classical Jacobians")
    neg += 1
    for key, lst in sorted(bad.items()):
        viol.append(Violation(key=key, detail=f"{len(lst)} case(s); first: fan-out tables {lst[0]['case']['pipe']} batch colours "
                                              f"{lst[0]['case']['batch']} via {lst[0]['how']}: got {json.dumps(lst[0]['got'])[:600]} expected "
                                              f"{json.dumps(lst[0]['expected'])[:600]}", replay=lst[0]))
    counts["configured_expand_pair_placements"] = placed
    cov["apply_counts"] = counts
    cov["apply_model"] = {"module": "PipelineApply", "C": C, "MaxFan": maxfan, "MaxStages": stages, "MaxBatch": batch, "states": g.distinct,
                          "invariants": ["Routing", "SlicesCover", "Shape"], "CotStages": consts["CotStages"], "mutants_caught": m.caught,
                          "wall_s": round(g.wall_s, 1)}
    return {"states": g.distinct, "trans": g.generated, "neg": neg, "cases": len(cases), "traces": traces,
            "nontriv": nontriv, "samples": samples[:1] + cot_samples}


# ---------------------------------------------------------------------------- real transforms
def _tree(f, *xs):
    if isinstance(xs[0], (tuple, list)):
        return tuple(_tree(f, *ys) for ys in zip(*xs))
    return f(*xs)


def _wsum(k1, kn):
    """numeric synthetic transform: k1 children for single-measurement tapes, kn otherwise; child j gets an extra
    rotation (so the children's results differ) and the results are combined with distinct weights."""
    def wsum(tape):
        n = k1 if len(tape.measurements) == 1 else kn
        kids = tuple(qp.tape.QuantumScript(list(tape.operations) + [qp.RY(0.37 * (j + 1), wires=0)], tape.measurements, shots=tape.shots)
                     for j in range(n))

        def post(results):
            if not results:          # dropped tape: a constant of the shape an execution of `tape` would have
                one = np.full(() if tape.batch_size is None else (tape.batch_size,), -7.0)
                return one if len(tape.measurements) == 1 else tuple(one for _ in tape.measurements)
            acc = _tree(lambda r: 1.5 * np.asarray(r), results[0])
            for j in range(1, len(results)):
                acc = _tree(lambda a, r, j=j: a + (j + 1.5) * np.asarray(r), acc, results[j])
            return acc
        return kids, post
    wsum.__name__ = f"wsum{k1}{kn}"
    return transform(wsum)


def _real_batch():
    x = np.array([0.1, 0.2, 0.3])
    return [qp.tape.QuantumScript([qp.RX(0.3, 0), qp.RY(0.5, 1), qp.CNOT([0, 1])], [qp.expval(qp.X(0)), qp.expval(qp.Z(0)), qp.expval(qp.Y(1))]),
            qp.tape.QuantumScript([qp.RX(x, 0), qp.CNOT([0, 1])], [qp.expval(qp.Z(1))]),
            qp.tape.QuantumScript([qp.RY(0.7, 0)], [qp.expval(qp.Z(0))]),
            qp.tape.QuantumScript([qp.RX(np.array([0.4, 0.9]), 0), qp.RY(0.2, 1)], [qp.expval(qp.X(0)), qp.expval(qp.Z(0) @ qp.Z(1))])]


def _flat(x):
    if isinstance(x, (tuple, list)):
        return np.concatenate([_flat(y) for y in x]) if len(x) else np.zeros(0)
    return np.asarray(x, dtype=float).reshape(-1)


def run_real(tier, seed, cov, viol, traces):
    rng = random.Random(seed)
    kinds = {"snc": qp.transforms.split_non_commuting, "bex": qp.transforms.broadcast_expand,
             "w12": _wsum(1, 2), "w20": _wsum(2, 0), "w02": _wsum(0, 2), "w21": _wsum(2, 1)}
    names_ = sorted(kinds)
    shapes = [s for n in (1, 2, 3) for s in _product(names_, n) if any(k in ("snc", "bex") for k in s)]
    rng.shuffle(shapes)
    shapes = shapes[:(24 if tier == "quick" else 150)]
    must = [("snc", "bex"), ("bex", "snc"), ("w12", "snc", "bex"), ("snc", "w21", "bex")]
    shapes = must + [s for s in shapes if s not in must]
    dev = qp.device("default.qubit")
    tapes = _real_batch()
    n_ok, n_exec, samples, bad = 0, 0, [], {}

    def hand(tape, ts):
        if not ts:
            return dev.execute((tape,))[0]
        kids, fn = ts[0](tape)
        return fn(tuple(hand(k, ts[1:]) for k in kids))
    for si, shape in enumerate(shapes):
        ts = [kinds[k] for k in shape]
        sub = tapes if si % 3 else tapes[: 1 + si % 4]
        pipe = CompilePipeline(*ts)
        try:
            ob, fn = pipe(tuple(sub))
            res = dev.execute(ob) if len(ob) else ()
            got = fn(res)
            exp = tuple(hand(t, ts) for t in sub)
        except Exception as e:  # noqa: BLE001
            bad.setdefault("real:exception", []).append((f"{type(e).__name__}: {e} for pipeline {shape}", {"pipeline": shape, "ntapes": len(sub)}))
            continue
        n_exec += len(ob)
        fans, level = [], list(sub)
        for t_ in ts:
            nxt, f_ = [], []
            for tp in level:
                kids, _ = t_(tp)
                f_.append(len(kids))
                nxt.extend(kids)
            fans.append(f_)
            level = nxt
        sl = stack_slices(fn)
        traces.append({"fans": fans, "nout": len(ob), "slices": sl if sl is not None else [], "nres": len(got), "nin": len(sub)})
        ok = len(got) == len(exp)
        for a, b in zip(got, exp):
            fa, fb = _flat(a), _flat(b)
            ok = ok and fa.shape == fb.shape and np.allclose(fa, fb, atol=1e-8, rtol=0)
        if ok:
            n_ok += 1
            if len(samples) < 2 and len(shape) == 3:
                samples.append({"pipeline": list(shape), "fan_outs_by_hand": fans, "executed_tapes": len(ob), "first_result": str(got[0])[:120]})
        else:
            bad.setdefault("real:pipeline-result-differs-from-by-hand", []).append(
                (f"pipeline {shape} on {len(sub)} tapes: {str(got)[:300]} vs by hand {str(exp)[:300]}", {"pipeline": shape, "ntapes": len(sub)}))
    for key, lst in sorted(bad.items()):
        viol.append(Violation(key=key, detail=f"{len(lst)} pipeline(s); first: {lst[0][0]}", replay=lst[0][1]))
    # comparator negative control: by hand with two stages swapped must differ for a non-commuting pair of stages
    ts = [kinds["w12"], kinds["snc"]]
    ob, fn = CompilePipeline(*ts)((tapes[0],))
    a = _flat(fn(dev.execute(ob))[0])
    b = _flat(hand(tapes[0], ts[::-1]))
    if a.shape == b.shape and np.allclose(a, b, atol=1e-8):
        raise lib.MachineryError("numeric comparator cannot tell reordered stages apart")
    cov["real_pipelines"] = {"pipelines": len(shapes), "agree_with_by_hand": n_ok, "device_executions": n_exec, "samples": samples}
    return 1


def run_cot_numeric(tier, cov, viol):
    """Real hybrid gradient: QNode with trainable arguments -> synthetic fan-out into circuits whose gate parameter depends
    DIFFERENTLY on the arguments (RX(t), RX(t**2), RX(sin t)) -> param_shift.  The pipeline's gradient is compared with the
    transforms applied by hand (param_shift per circuit, chained with that circuit's own classical Jacobian) and with a
    central finite difference of the un-differentiated pipeline."""
    from pennylane import numpy as pnp
    dev = qp.device("default.qubit", wires=1)
    fs_all = [lambda t: t, lambda t: t ** 2, lambda t: qp.math.sin(t), lambda t: 0.5 * t + 0.25 * t ** 3]
    ws_all = [1.5, -0.7, 2.25, 0.6]
    inner1 = lambda x: x                      # noqa: E731
    inner2 = lambda x, y: x * y + y           # noqa: E731

    @qp.qnode(dev)
    def circ1(x):
        qp.RX(inner1(x), 0)
        return qp.expval(qp.Z(0))

    @qp.qnode(dev)
    def circ2(x, y):
        qp.RX(inner2(x, y), 0)
        return qp.expval(qp.Z(0))
    configs = [(circ1, inner1, (0.7,), [0, 1]), (circ1, inner1, (-1.3,), [0, 1, 2]), (circ2, inner2, (0.7, -0.4), [1, 0, 3]),
               (circ1, inner1, (0.45,), [3, 2, 1, 0])]
    if tier != "quick":
        configs += [(circ2, inner2, (-0.9, 1.1), [0, 1, 2, 3]), (circ1, inner1, (2.1,), [1, 2]), (circ2, inner2, (0.2, 0.3), [2, 3])]
    n_ok, bad, samples, neg = 0, {}, [], 0
    for circ, inner, args, sel in configs:
        fs, ws = [fs_all[i] for i in sel], [ws_all[i] for i in sel]

        def variants(tape, fs=fs, ws=ws):
            par = tape.operations[0].data[0]
            kids = tuple(qp.tape.QuantumScript([qp.RX(f(par), 0), qp.RY(0.3, 0)], tape.measurements, trainable_params=[0]) for f in fs)

            def post(res):
                acc = _tree(lambda r: ws[0] * r, res[0])
                for w, r in zip(ws[1:], res[1:]):
                    acc = _tree(lambda a, b, w=w: a + w * b, acc, r)
                return acc
            return kids, post
        VT = transform(variants)
        targs = tuple(pnp.array(a, requires_grad=True) for a in args)
        try:
            got = np.atleast_1d(np.array([float(v) for v in np.atleast_1d(_flat(qp.gradients.param_shift(VT(circ))(*targs)))]))
        except Exception as e:  # noqa: BLE001
            bad.setdefault("cotransform:exception", []).append(f"{type(e).__name__}: {e} for args {args} variants {sel}")
            continue
        # by hand: quantum gradient of every circuit (param_shift on the tape), chained with ITS OWN classical Jacobian (autograd)
        dE, jac = [], []
        for f in fs:
            theta = float(f(inner(*args)))
            tp = qp.tape.QuantumScript([qp.RX(theta, 0), qp.RY(0.3, 0)], [qp.expval(qp.Z(0))], trainable_params=[0])
            gt, gf = qp.gradients.param_shift(tp)
            dE.append(float(np.asarray(gf(dev.execute(gt))).reshape(-1)[0]))
            jac.append([float(qp.grad(lambda *a, f=f: f(inner(*a)), argnums=k)(*targs)) for k in range(len(args))])
        hand = np.array([sum(w * d * j[k] for w, d, j in zip(ws, dE, jac)) for k in range(len(args))])
        wrong = np.array([sum(w * d * jac[0][k] for w, d in zip(ws, dE)) for k in range(len(args))])   # everybody gets circuit 0's Jacobian
        F, h = VT(circ), 1e-6
        fd = np.array([(float(F(*[a + (h if i == k else 0) for i, a in enumerate(args)])) -
                        float(F(*[a - (h if i == k else 0) for i, a in enumerate(args)]))) / (2 * h) for k in range(len(args))])
        if np.allclose(hand, wrong, atol=1e-4):
            raise lib.MachineryError("cotransform case cannot tell per-circuit Jacobians from a shared one")
        neg += 1
        if not np.allclose(hand, fd, atol=1e-5):
            raise lib.MachineryError(f"by-hand gradient {hand} disagrees with finite differences {fd} (harness)")
        if got.shape == hand.shape and np.allclose(got, hand, atol=1e-8) and np.allclose(got, fd, atol=1e-5):
            n_ok += 1
            if len(samples) < 1:
                samples.append({"qnode_args": list(args), "circuits": [["RX(t)", "RX(t^2)", "RX(sin t)", "RX(t/2+t^3/4)"][i] for i in sel],
                                "param_shift_through_pipeline": got.tolist(), "by_hand_per_circuit_jacobians": hand.tolist(),
                                "finite_difference": fd.tolist(), "with_one_shared_jacobian_(rejected)": wrong.tolist()})
        else:
            key = "cotransform:gradient-uses-another-circuits-classical-jacobian" if got.shape == wrong.shape and np.allclose(got, wrong, atol=1e-6) \
                else "cotransform:pipeline-gradient-differs-from-by-hand-and-finite-difference"
            bad.setdefault(key, []).append(f"args {args}, circuits {sel}: pipeline {got.tolist()} by hand {hand.tolist()} finite difference {fd.tolist()}")
    for key, lst in sorted(bad.items()):
        viol.append(Violation(key=key, detail=f"{len(lst)} configuration(s); first: {lst[0]}", replay={"detail": lst[0]}))
    cov["classical_cotransform_numeric"] = {"configurations": len(configs), "agree_with_by_hand_and_finite_difference": n_ok, "samples": samples}
    return neg


def _product(xs, n):
    if n == 0:
        return [()]
    return [(x,) + r for x in xs for r in _product(xs, n - 1)]


def apply_trace_prepare(traces, rng):
    n_real = len(traces)
    negs = []
    cand = [i for i in range(n_real) if traces[i]["fans"] and traces[i]["nout"] >= 2 and traces[i]["slices"]]
    for i in rng.sample(cand, min(10, len(cand))):
        c = copy.deepcopy(traces[i])
        c["nout"] += 1
        negs.append(len(traces))
        traces.append(c)
    cand = [i for i in range(n_real) if traces[i]["slices"] and len(traces[i]["slices"][-1]) >= 2 and traces[i]["slices"][-1][0][1] > 0]
    for i in rng.sample(cand, min(10, len(cand))):
        c = copy.deepcopy(traces[i])
        c["slices"][-1][1][0] -= 1                                   # second slice overlaps the first
        negs.append(len(traces))
        traces.append(c)
    wd = lib.workdir(PID, "apply_trace")
    return {"traces": traces, "n_real": n_real, "negs": negs, "wd": wd}


def apply_validate(ctx):
    return _validate_chunks("Trace_PipelineApply", ctx["traces"], ctx["wd"], "Trace_PipelineApply")


def apply_judge(ctx, r, n_syn, viol):
    traces, n_real, negs = ctx["traces"], ctx["n_real"], ctx["negs"]
    verd = {t[1] - 1: t[2] for t in r.tuples if t[0] == "V"}
    if len(verd) != len(traces):
        raise lib.MachineryError(f"application verdicts not total: {len(verd)} of {len(traces)}")
    rej = sum(1 for i in negs if verd[i] != "ok")
    if len(negs) < 10 or rej != len(negs):
        raise lib.MachineryError(f"application trace negative controls rejected {rej}/{len(negs)}")
    bad, drift = {}, 0
    for i in range(n_real):
        if verd[i] == "slices-are-not-the-child-ranges":
            drift += 1                       # mechanism: judged by the results, not by the slices
        elif verd[i] != "ok":
            bad.setdefault(("apply" if i < n_syn else "real") + ":structure:" + verd[i], []).append(traces[i])
    for key, lst in sorted(bad.items()):
        viol.append(Violation(key=key, detail=f"{len(lst)} run(s); first: {lst[0]}", replay=lst[0]))
    return rej, drift, sum(1 for t in traces[:n_real] if not t["slices"] and t["fans"])


def run(tier, seed):
    try:
        return _run(tier, seed)
    finally:
        if not os.environ.get("VERIF_KEEP"):
            lib.clean_work(PID)


def _run(tier, seed):
    cov, viol = {}, []
    rng = random.Random(seed)
    W = int(os.environ.get("VERIF_TLC_WORKERS", "16"))
    wall = {}
    t0 = time.time()
    # ---- (M) all generator / model-checking runs side by side (JVM start-up dominates the small ones)
    jobs = edit_plan(tier)
    with ThreadPoolExecutor(max_workers=6) as ex:
        f_g = ex.submit(apply_generate, tier, max(2, W // 2))
        f_e = [ex.submit(edit_generate, j, seed, max(2, W // 2)) for j in jobs]
        g, eres = f_g.result(), [f.result() for f in f_e]
        m = g
    wall["tlc_models_and_generators"] = round(time.time() - t0, 1)
    # ---- (C) spec -> code
    t0 = time.time()
    a = run_apply(tier, seed, cov, viol, g, m)
    traces = a["traces"]
    n_syn = len(traces)
    neg_real = run_real(tier, seed, cov, viol, traces)
    neg_real += run_cot_numeric(tier, cov, viol)
    n_traces = len(traces)
    actx = apply_trace_prepare(traces, rng)
    wall["replay_application"] = round(time.time() - t0, 1)
    t0 = time.time()
    ectx = edit_replay(jobs, eres, seed)
    wall["replay_construction_api"] = round(time.time() - t0, 1)
    # ---- (C) code -> spec
    t0 = time.time()
    with ThreadPoolExecutor(max_workers=2) as ex:
        f_a = ex.submit(apply_validate, actx)
        f_e = ex.submit(edit_validate, ectx)
        r, er = f_a.result(), f_e.result()
    wall["tlc_trace_validation"] = round(time.time() - t0, 1)
    rej, sl_drift, unobs = apply_judge(actx, r, n_syn, viol)
    e = edit_judge(ectx, er, cov, viol)
    cov["phase_wall_s"] = wall
    ac = cov["apply_counts"]
    if ac["classical_cotransform_with_several_tapes"] < 20 or ac["configured_expand_pair_positional"] < 100 or ac["configured_expand_pair_keyword"] < 30 \
            or min(ac["configured_expand_pair_placements"].values()) < 20 or cov["classical_cotransform_numeric"]["configurations"] < 4:
        raise lib.MachineryError(f"vacuous coverage of configured expand pairs / classical cotransforms: {ac}")
    if cov["apply_counts"]["fanout0"] < 50 or cov["apply_counts"]["uneven_nested"] < 50 or cov["apply_counts"]["empty_output"] < 5:
        raise lib.MachineryError(f"vacuous application coverage: {cov['apply_counts']}")
    for opname in ("append", "insert", "pop", "add", "addP", "radd", "mul", "slice", "addm", "delm", "remove", "iadd", "iaddP"):
        if cov["edit_calls_by_kind"].get(opname, 0) < 20:
            raise lib.MachineryError(f"vacuous edit coverage: {opname} replayed {cov['edit_calls_by_kind'].get(opname, 0)} times")
    cov.update({
        "states": a["states"] + e["states"] + r.distinct + er.distinct, "transitions": a["trans"] + e["trans"] + r.generated + er.generated,
        "traces_validated_against_impl": n_traces + e["traces"],
        "evaluations": a["cases"] + cov["real_pipelines"]["pipelines"] + cov["classical_cotransform_numeric"]["configurations"] + e["evals"],
        "distinct_nontrivial": a["nontriv"] + e["nontriv"],
        "rule": "application: distinct TLC cases (fan-out tables x batch) whose stages produce uneven nested batches (a stage with fan-out > 1 "
                "followed by a stage that treats the children differently) including a dropped tape (fan-out 0); construction API: distinct "
                "(observed pipeline with >= 2 transforms and >= 1 marker, accepted state-changing call) pairs validated by Trace_Pipeline",
        "samples": a["samples"] + e["samples"][:1] + cov["real_pipelines"]["samples"][:1] + cov["classical_cotransform_numeric"]["samples"],
        "exhaustive": True,
        "application_cases": a["cases"], "application_traces": n_traces, "application_slices_drift": sl_drift,
        "application_slices_unobservable": unobs,
        "negative_controls_rejected": a["neg"] + e["neg"] + rej + neg_real})
    return CheckResult(coverage=cov, violations=viol, assumptions=[
        "synthetic post-processing is the free term constructor (injective), so any mis-routing of a result changes the term",
        "tapes are told apart by a gate parameter; fan-out depends on the tape only through its colour",
        "classical cotransforms: autograd interface only (symbolic Jacobian = tape identity through a real QNode + CotransformCache; "
        "numeric param_shift vs by hand vs finite differences); jax argnums path not exercised",
        "markers: judged by order preservation relative to surviving transforms, bounds 0..Len and survival (only slicing / "
        "remove_marker may delete); insert with a negative index is outside the documented use and only counted",
        "real-transform pipelines are compared numerically (1e-8) with the by-hand application on default.qubit"])


def replay(path, tier, seed):
    """Re-run a stored violation.  Construction-API replays are replayed call by call against the real CompilePipeline and
    re-validated by Trace_Pipeline.tla; anything else re-runs the whole check."""
    data = json.loads(open(path).read())
    rep = data.get("replay") or {}
    if "history" not in rep:
        return run(tier, seed)
    h = {"hist": [{"o": o, "err": None, "seq": None, "ret": None} for o in rep["history"]]}
    cases = []
    p, retained, prev = None, [], {"seq": [], "mk": []}
    for stp in h["hist"]:
        o = stp["o"]
        try:
            newp, ret = apply_call(p, o, retained, 0)
            err = ""
        except Exception as e:  # noqa: BLE001
            newp, ret, err = p, "", type(e).__name__
        if newp is None:
            break
        obs = {"err": err, "seq": names(newp), "ret": ret, "mk": mk_list(markers(newp)),
               "intact": bool(all(snapshot(q) == snap for q, snap in retained if q is not newp))}
        cases.append({"prev": prev, "o": o, "obs": obs})
        p, prev = newp, {"seq": obs["seq"], "mk": obs["mk"]}
    wd = lib.workdir(PID, "replay")
    try:
        r = edit_validate({"cases": cases, "wd": wd})
    finally:
        if not os.environ.get("VERIF_KEEP"):
            lib.clean_work(PID)
    verd = {t[1] - 1: (t[2], t[3]) for t in r.tuples if t[0] == "V"}
    viol = []
    for i, c in enumerate(cases):
        print(f"  {_show(c['o'])} -> err={c['obs']['err']!r} seq={c['obs']['seq']} markers={[(m['l'], m['v']) for m in c['obs']['mk']]}  [{verd[i][0]}]")
        if verd[i][0] != "ok":
            viol.append(Violation(key=f"edit:{opclass(c['o'])}:{verd[i][0]}", detail=f"replayed: {c}", replay=rep))
            break
    return CheckResult(coverage={"states": r.distinct, "transitions": r.generated, "traces_validated_against_impl": len(cases), "evaluations": len(cases),
                                 "distinct_nontrivial": len(cases), "rule": "replay of one stored history", "samples": [], "exhaustive": False},
                       violations=viol)
