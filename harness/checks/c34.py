"""C34 Every accepted differentiation configuration gives the true derivative.

Oracle: exact derivative states from TLC (harness/deriv.py: psi and d_k psi in the cyclotomic ring via the generator table,
itself model-checked against the gate table by GenSelf.tla).  REPLAY: seeded circuits with trainable lattice parameters,
shared parameters and affine classical pre-processing theta_k = c_k * x_i + b_k; the Jacobian of expval / var / probs is
requested from PennyLane under every configuration (interface x diff_method x grad_on_execution x device_vjp) and compared
with the chain rule applied to TLC's exact partial derivatives.  A configuration may reject a circuit (exception recorded);
agreement is required among those that accept."""
import random

import numpy as np

import pennylane as qp

from .. import deriv, devsim, lib
from ..codec import decode_gate, rec
from ..lib import CheckResult, Violation

M = 4
TOL = {"backprop": 1e-7, "parameter-shift": 1e-7, "adjoint": 1e-7, "hadamard": 1e-7, "finite-diff": 2e-5,
       "hadamard:standard": 1e-7, "hadamard:reversed": 1e-7, "hadamard:direct": 1e-7, "hadamard:reversed-direct": 1e-7}
TRAIN1 = ["RX", "RY", "RZ", "PhaseShift"]
TRAIN2 = ["CRX", "CRY", "CRZ", "IsingXX", "IsingYY", "IsingZZ", "IsingXY", "ControlledPhaseShift", "SingleExcitation",
          "SingleExcitationPlus", "SingleExcitationMinus", "PSWAP", "FermionicSWAP", "CPhaseShift10"]


def gen_case(rng):
    n = rng.choice([1, 2, 2, 3, 3])
    m = rng.randint(1, 3)                      # number of function arguments x_i
    x = [rng.randrange(1, 16) for _ in range(m)]
    ops, tr = [], []
    used = set()
    for _ in range(rng.randint(2, 7)):
        r = rng.random()
        if r < 0.55:
            name = rng.choice(TRAIN1 + (TRAIN2 if n >= 2 else []) + (["MultiRZ", "PauliRot"] if rng.random() < 0.3 else []))
            if name == "MultiRZ":
                q = rng.randint(1, n)
                g = rec(name, rng.sample(range(1, n + 1), q), [0])
            elif name == "PauliRot":
                q = rng.randint(1, n)
                g = rec(name, rng.sample(range(1, n + 1), q), [0], [rng.randint(1, 3) for _ in range(q)])
            else:
                ar = 1 if name in TRAIN1 else 2
                g = rec(name, rng.sample(range(1, n + 1), ar), [0])
            i = rng.randrange(m)
            c = rng.choice([1, 1, 1, -1, 2])
            b = rng.choice([0, 0, 3, 5])
            g["p"] = [(c * x[i] + b) % 32 if True else 0]
            g["aff"] = (i, c, b)
            used.add(i)
            tr.append(len(ops))
            ops.append(g)
        else:
            ops.append(devsim.random_gate(rng, n, M, ["g1", "g2", "r1", "adj"] if n >= 2 else ["g1", "r1"]))
    for i in range(m):                          # every argument is used at least once
        if i not in used:
            g = rec("RY", [rng.randint(1, n)], [x[i] % 32])
            g["aff"] = (i, 1, 0)
            tr.append(len(ops))
            ops.append(g)
    k = rng.choice(["expval", "expval", "probs", "var", "hexp"])
    if k == "hexp":
        q = rng.randint(1, min(2, n))
        ws = rng.sample(range(1, n + 1), q)
        a = np.array([[complex(rng.randint(-3, 3), rng.randint(-3, 3)) for _ in range(1 << q)] for _ in range(1 << q)]) / 4
        meas = ("hexp", ws, (a + a.conj().T).tolist())
    elif k == "probs":
        meas = ("probs", sorted(rng.sample(range(1, n + 1), rng.randint(1, n))))
    else:
        pw = [rng.randint(0, 3) for _ in range(n)]
        if not any(pw):
            pw[0] = 3
        meas = (k, pw)
    return {"n": n, "x": x, "ops": ops, "tr": tr, "meas": meas}


def gen_directed(rng, kind):
    """Directed families the random generator reaches too rarely:
    tail     - every trainable gate is followed by several mutually non-commuting gates (the reversed Hadamard test
               un-computes exactly that tail), single expectation value;
    deadwire - constant-angle gates precede the trainable ones, some of them on a wire that reaches no measurement, so the
               i-th trainable parameter and the i-th tape parameter belong to different kinds of gate."""
    x = [rng.randrange(1, 16) for _ in range(2)]
    ops, tr = [], []

    def train(name, wires, i):
        g = rec(name, wires, [0])
        c, b = rng.choice([1, -1, 2]), rng.choice([0, 3])
        g["p"] = [(c * x[i] + b) % 32]
        g["aff"] = (i, c, b)
        tr.append(len(ops))
        ops.append(g)

    if kind == "tail":
        n = 2
        tail = [rec("CNOT", [1, 2]), rec("RY", [1], [rng.randrange(1, 16)]), rec("Hadamard", [2]), rec("CNOT", [2, 1]),
                rec("RX", [2], [rng.randrange(1, 16)]), rec("S", [1]), rec("Hadamard", [1])]
        train(rng.choice(TRAIN1), [1], 0)
        ops.extend(rng.sample(tail, 3))
        train(rng.choice(TRAIN1 + TRAIN2[:6]), [2, 1], 1) if rng.random() < 0.5 else train(rng.choice(TRAIN1), [2], 1)
        if len(ops[-1]["w"]) == 2 and ops[-1]["g"] in TRAIN1:
            ops[-1]["w"] = [2]
        ops.extend(rng.sample(tail, 4))
        meas = ("expval", [rng.randint(1, 3), rng.randint(1, 3)])
    else:
        n = 3
        ops.append(rec("RX", [3], [rng.randrange(1, 16)]))
        ops.append(rec("RY", [3], [rng.randrange(1, 16)]))
        if rng.random() < 0.5:
            ops.append(rec("RZ", [1], [rng.randrange(1, 16)]))
        train(rng.choice(TRAIN1[:2]), [1], 0)
        ops.append(rec("CNOT", [1, 2]))
        ops.append(rec("RX", [3], [rng.randrange(1, 16)]))
        train(rng.choice(TRAIN1[:2]), [2], 1)
        train(rng.choice(["CRX", "IsingXX", "CRY"]), [1, 2], rng.randrange(2))
        meas = (rng.choice(["expval", "var", "probs"]), [3, rng.randint(1, 3), 0])
        if meas[0] == "probs":
            meas = ("probs", [1, 2])
    return {"n": n, "x": x, "ops": ops, "tr": tr, "meas": meas, "directed": kind}


def tlc_ops(c):
    return [{k: v for k, v in g.items() if k != "aff"} for g in c["ops"]]


def make_qfunc(c):
    def f(x):
        for g in c["ops"]:
            if "aff" in g:
                i, cc, b = g["aff"]
                th = cc * x[i] + lib.angle_of(b, M)
                base = dict(g, p=[0])
                op = decode_gate({k: v for k, v in base.items() if k != "aff"}, M)
                type(op)(th, *([] if g["g"] != "PauliRot" else [op.hyperparameters["pauli_word"]]), wires=op.wires)
                qp.QueuingManager.remove(op) if False else None
            else:
                decode_gate(g, M)
        m = c["meas"]
        if m[0] == "expval":
            return qp.expval(devsim.word_op(m[1], list(range(c["n"]))))
        if m[0] == "var":
            return qp.var(devsim.word_op(m[1], list(range(c["n"]))))
        return qp.probs(wires=[w - 1 for w in m[1]])
    return f


def build_ops_fn(c):
    """quantum function that queues exactly the circuit with theta_k = c*x_i + b (no stray operators)."""
    import pennylane as qp

    def f(x):
        for g in c["ops"]:
            gg = {k: v for k, v in g.items() if k != "aff"}
            if "aff" in g:
                i, cc, b = g["aff"]
                th = cc * x[i] + lib.angle_of(b, M)
                wires = [w - 1 for w in g["w"]]
                if g["g"] == "PauliRot":
                    qp.PauliRot(th, "".join("IXYZ"[t] for t in g["x"]), wires=wires)
                else:
                    getattr(qp, g["g"])(th, wires=wires)
            else:
                decode_gate(gg, M)
        m = c["meas"]
        if m[0] == "hexp":
            return qp.expval(qp.Hermitian(np.array(m[2]), wires=[w - 1 for w in m[1]]))
        if m[0] == "expval":
            return qp.expval(devsim.word_op(m[1], list(range(c["n"]))))
        if m[0] == "var":
            return qp.var(devsim.word_op(m[1], list(range(c["n"]))))
        return qp.probs(wires=[w - 1 for w in m[1]])
    return f


def pl_jacobian(c, interface, method, goe, dvjp):
    dev = qp.device("default.qubit", wires=c["n"] + 1)        # one spare wire for the Hadamard-test auxiliary
    kw = {"diff_method": method}
    if method.startswith("hadamard:"):
        kw = {"diff_method": "hadamard", "gradient_kwargs": {"mode": method.split(":")[1], "aux_wire": c["n"]}}
    if goe is not None:
        kw["grad_on_execution"] = goe
    if dvjp:
        kw["device_vjp"] = True
    xs = np.array([lib.angle_of(a, M) for a in c["x"]], dtype=float)
    if interface == "autograd":
        from pennylane import numpy as pnp
        qn = qp.QNode(build_ops_fn(c), dev, interface="autograd", **kw)
        J = qp.jacobian(qn)(pnp.array(xs, requires_grad=True))
    elif interface in ("jax", "jax-jit"):
        import jax
        qn = qp.QNode(build_ops_fn(c), dev, interface="jax", **kw)
        fn = jax.jit(jax.jacobian(qn)) if interface == "jax-jit" else jax.jacobian(qn)
        J = fn(jax.numpy.asarray(xs))
    else:
        import torch
        qn = qp.QNode(build_ops_fn(c), dev, interface="torch", **kw)
        J = torch.autograd.functional.jacobian(qn, torch.tensor(xs, dtype=torch.float64))
    return np.asarray(qp.math.toarray(J) if not isinstance(J, np.ndarray) else J, dtype=float)


CONFIGS = [(i, m, g, d) for i in ("autograd", "jax", "jax-jit", "torch")
           for m in ("backprop", "parameter-shift", "adjoint", "hadamard", "finite-diff", "hadamard:standard", "hadamard:reversed",
                     "hadamard:direct", "hadamard:reversed-direct")
           for g in (None, True, False) for d in (False, True)
           if not (m != "adjoint" and (g is True or d)) and not (m.startswith("hadamard:") and i != "autograd")
           and not (m == "adjoint" and g is None and d) and not (d and g is False and False)]


def run(tier, seed):
    rng = random.Random(3400 + seed)
    gs = deriv.selfcheck("C34", M)
    cases = [gen_case(rng) for _ in range(36 if tier == "quick" else 600)]
    nd = 3 if tier == "quick" else 30
    cases += [gen_directed(rng, "tail") for _ in range(nd)] + [gen_directed(rng, "deadwire") for _ in range(nd)]
    sts, stats = deriv.states("C34", [{"n": c["n"], "ops": tlc_ops(c), "tr": c["tr"]} for c in cases], M, order=1)
    viol, n_cmp, accepted, rejected, samples, rej_samples = [], 0, {}, {}, [], []
    nontriv = set()
    for ci, (c, st) in enumerate(zip(cases, sts)):
        # exact Jacobian by the chain rule
        parts = {k: deriv.grad(c["meas"], st, c["n"], k) for k in c["tr"]}
        cols = []
        for i in range(len(c["x"])):
            col = 0
            for k in c["tr"]:
                if c["ops"][k]["aff"][0] == i:
                    col = col + c["ops"][k]["aff"][1] * np.asarray(parts[k])
            cols.append(np.asarray(col, dtype=float) * np.ones_like(np.asarray(parts[c["tr"][0]], dtype=float)))
        J = np.stack(cols, axis=-1)            # (..., m)
        cfgs = CONFIGS if ci % 4 == 0 or tier != "quick" else rng.sample(CONFIGS, 6)
        if c.get("directed") and tier == "quick":
            cfgs = [cf for cf in CONFIGS if cf[0] == "autograd" or (cf[0] == "jax" and cf[1] in ("parameter-shift", "adjoint"))]
        for (itf, method, goe, dvjp) in cfgs:
            tag = f"{itf}|{method}|goe={goe}|dvjp={dvjp}"
            if method == "adjoint" and c["meas"][0] not in ("expval", "hexp"):
                continue
            try:
                Jp = pl_jacobian(c, itf, method, goe, dvjp)
            except Exception as e:
                rejected[f"{method}:{type(e).__name__}"] = rejected.get(f"{method}:{type(e).__name__}", 0) + 1
                if len(rej_samples) < 6:
                    rej_samples.append(f"{tag}: {type(e).__name__}: {str(e)[:120]}")
                continue
            accepted[tag] = accepted.get(tag, 0) + 1
            n_cmp += 1
            if Jp.shape != J.shape:
                try:
                    Jp = Jp.reshape(J.shape)
                except Exception:
                    viol.append(Violation(key=f"{method}:{itf}:shape", detail=f"Jacobian shape {Jp.shape} vs {J.shape} for {c}", replay={"case": c, "config": tag}))
                    continue
            if not np.allclose(Jp, J, atol=TOL[method], rtol=0):
                viol.append(Violation(key=f"{method}:{itf}:{c['meas'][0]}:wrong-derivative",
                                      detail=f"{tag}: got {np.round(Jp, 6).tolist()} expected {np.round(J, 6).tolist()} for ops {tlc_ops(c)} x={c['x']} meas={c['meas']}",
                                      replay={"case": c, "config": tag}))
            elif np.max(np.abs(J)) > 1e-6:
                nontriv.add(ci)
        if len(samples) < 3 and np.max(np.abs(J)) > 1e-3:
            samples.append({"n": c["n"], "x_lattice": c["x"], "ops": [(g["g"], g["w"], g["p"], g.get("aff")) for g in c["ops"]],
                            "measurement": c["meas"], "exact_jacobian": np.round(J, 8).tolist()})
    # negative control
    if np.allclose(np.array([0.3]), np.array([0.3 + 1e-4]), atol=TOL["finite-diff"], rtol=0):
        raise lib.MachineryError("negative control accepted")
    cov = {"states": stats["distinct"] + gs.distinct, "transitions": stats["generated"] + gs.generated,
           "traces_validated_against_impl": n_cmp, "evaluations": n_cmp, "distinct_nontrivial": len(nontriv),
           "rule": "seeded circuits (1-3 wires, 2-7 gates, 1-3 arguments with shared/affine use) plus directed families (non-commuting tails after each trainable gate; constant gates, some on an unmeasured wire, before the trainable ones); non-trivial = distinct circuits with a "
                   "non-zero exact Jacobian on which every accepting configuration agreed",
           "samples": samples, "configurations_accepting": accepted, "rejections": rejected, "rejection_samples": rej_samples, "generator_table_selfcheck_states": gs.distinct,
           "negative_controls_rejected": 1, "ring_level_M": M}
    return CheckResult(coverage=cov, violations=viol, assumptions=[
        "exact part: psi and d_k psi from TLC; the Jacobian is their bilinear form computed in float64; finite-diff compared at 2e-5; spsa not covered",
        "parameters on the lattice 4pi/16 (shift rules are exact trigonometric identities, so lattice points are generic for them)"])
