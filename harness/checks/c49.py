"""C49 Quantum-information functions match their definitions (partial).

REPLAY: spec/sys/QInfo.tla evaluates, exactly (ring Z[zeta_N][1/2], GF(2), integers):
  * short circuits over the reference gate table on <= 4 (thorough: 5) wires -> state vectors a, b, the mixture
    rho = (wa|a><a| + wb|b><b|)/2^wk, reduced density matrices by explicit index contraction for ordered wire lists,
    purities of every wire subset, <a|b>, |<a|b>|^2, <a|rho|a>;
  * for Clifford circuits the stabiliser tableau and from it the entropy (integer multiple of ln 2) of every wire subset
    by GF(2) rank (two definitions) -- TLC checks it equals the exponent of the exact ring purity (INVARIANT ChkOK);
  * diagonal dyadic states: marginals, entropies / relative entropy / mutual information as integer combinations of
    ln p over 2^k, trace distance as a rational;
  * matrix expansion by explicit tensor re-indexing of reference gate matrices (TLC checks = CMat!ApplyGate on identity).
The driver feeds TLC's exact states to pennylane.math.{reduce_dm, reduce_statevector, partial_trace, dm_from_state_vector,
purity, vn_entropy, max_entropy, min_entropy, mutual_info, vn_entanglement_entropy, relative_entropy, fidelity,
fidelity_statevector, trace_distance, sqrt_matrix, expand_matrix} under numpy / autograd / jax / torch (and scipy sparse for
expand_matrix), unbatched and batched, and compares floats at 1e-8 against the exact expectations.
Bridged (harness, not TLC): eigenvalue formulas on TLC's exact reduced matrices, sqrt / ln of TLC's exact rationals,
bounds and metric axioms on the implementation's outputs for the exact states and for seeded random states of 1-5 qubits."""
import itertools
import json
import math
import random

import numpy as np

import pennylane as qp

from .. import lib
from ..codec import rec
from ..devsim import random_gate
from ..lib import CheckResult, MachineryError, Violation, ring_matrix_to_numpy, ring_to_complex

TOL = 1e-8
TOL_F = 2e-6      # fidelity of density matrices: sqrt of O(1e-16) eigenvalue noise (documented bridge tolerance)
PRIMES = [2, 3, 5, 7, 11, 13, 17, 19, 23, 29, 31]
LN2 = math.log(2.0)
CLIFF1 = ["Hadamard", "S", "PauliX", "PauliY", "PauliZ", "Hadamard", "S"]
CLIFF2 = ["CNOT", "CZ", "SWAP", "CNOT"]
IFACES = ["numpy", "autograd", "jax", "torch"]
NOJAX = ["numpy", "autograd", "torch"]
QM = qp.math


# ------------------------------------------------------------------------------------------- interfaces
def to_if(x, iface):
    x = np.asarray(x)
    if iface == "numpy":
        return x
    if iface == "autograd":
        return qp.numpy.array(x, requires_grad=False)
    if iface == "jax":
        import jax.numpy as jnp
        return jnp.asarray(x)
    if iface == "torch":
        import torch
        return torch.tensor(x)
    raise MachineryError(iface)


def tonp(x):
    if hasattr(x, "detach"):
        x = x.detach().cpu().numpy()
    if hasattr(x, "toarray") and not isinstance(x, np.ndarray):
        x = x.toarray()
    return np.asarray(x)


# ------------------------------------------------------------------------------------------- case generation
def mask_of(ws, n):
    return sum(1 << (n - w) for w in ws)


def wires_of(m, n):
    return [w for w in range(1, n + 1) if (m >> (n - w)) & 1]


def _clifford(rng, n, L):
    ops = [rec("Hadamard", [w]) for w in range(1, n + 1) if rng.random() < 0.7]
    for _ in range(L):
        if n >= 2 and rng.random() < 0.6:
            ops.append(rec(rng.choice(CLIFF2), rng.sample(range(1, n + 1), 2)))
        else:
            ops.append(rec(rng.choice(CLIFF1), [rng.randint(1, n)]))
    return ops


def _general(rng, n, M, L):
    ops = [rec("Hadamard", [w]) for w in range(1, n + 1) if rng.random() < 0.5]
    kinds = ["g1", "g1", "r1", "g2", "g2", "r2", "g3", "ctrl", "p3"]
    ops += [random_gate(rng, n, M, kinds) for _ in range(L)]
    return ops


def _subs(rng, n, common):
    out = [list(s) for s in common]
    for _ in range(3):
        s = rng.sample(range(1, n + 1), rng.randint(1, n))
        if s not in out:
            out.append(s)
    return out


def _disjoint_pairs(rng, n, k):
    out = []
    if n < 2:
        return out
    for _ in range(k):
        ws = rng.sample(range(1, n + 1), rng.randint(2, n))
        cut = rng.randint(1, len(ws) - 1)
        out.append([ws[:cut], ws[cut:]])
    return out


WEIGHTS = [(1, 0, 0), (1, 1, 1), (1, 3, 2), (3, 5, 3), (7, 1, 3), (1, 1, 1)]


def compositions(total, parts):
    if parts == 1:
        yield [total]
        return
    for f in range(total + 1):
        for rest in compositions(total - f, parts - 1):
            yield [f] + rest


def random_composition(rng, total, parts, zeros=0.3):
    while True:
        w = [0 if rng.random() < zeros else rng.random() ** 2 for _ in range(parts)]
        if sum(w) == 0:
            continue
        c = [int(total * x / sum(w)) for x in w]
        nz = [i for i in range(parts) if w[i] > 0]
        for _ in range(total - sum(c)):
            c[rng.choice(nz)] += 1
        if sum(c) == total:
            return c


def gen_cases(tier, seed, M):
    rng = random.Random(4900 + seed)
    quick = tier == "quick"
    cases = []
    nmax = 4 if quick else 5
    common = {}
    for n in range(1, nmax + 1):
        cm = [list(range(1, n + 1))]
        if n >= 2:
            cm.append(list(range(n, 0, -1)))                 # all wires, reversed
            cm.append(sorted(rng.sample(range(1, n + 1), n - 1)))   # ascending proper subset
            p = rng.sample(range(1, n + 1), max(1, n - 1))
            cm.append(p)
        if n >= 3:
            cm.append(sorted(rng.sample(range(1, n + 1), n - 2)))
            cm.append([n, 1])
        common[n] = [list(x) for x in dict.fromkeys(tuple(s) for s in cm)]
    # --- circuits
    ncirc = 48 if quick else 400
    nstab = 40 if quick else 300
    ns = [1, 2, 2, 3, 3, 3, 4, 4, 4] + ([] if quick else [5])
    for i in range(ncirc):
        n = rng.choice(ns)
        a = _general(rng, n, M, rng.randint(1, 6))
        r = rng.random()
        if r < 0.15:
            b = [dict(g) for g in a]
        elif r < 0.45:
            b = [dict(g) for g in a] + _general(rng, n, M, 1)[-1:]
        else:
            b = _general(rng, n, M, rng.randint(0, 5))
        wa, wb, wk = WEIGHTS[i % len(WEIGHTS)]
        cases.append({"kind": "circ", "n": n, "a": a, "b": b, "wa": wa, "wb": wb, "wk": wk, "stab": 0,
                      "subs": _subs(rng, n, common[n]), "mi": []})
    H, CX, CZ = (lambda w: rec("Hadamard", [w])), (lambda c, t: rec("CNOT", [c, t])), (lambda c, t: rec("CZ", [c, t]))
    special = [(4, [H(1), CX(1, 2), CX(2, 3), CX(3, 4)]),                                   # GHZ
               (4, [H(1), H(2), H(3), H(4), CZ(1, 2), CZ(2, 3), CZ(3, 4)]),                # linear cluster
               (4, [H(1), H(2), CX(1, 3), CX(2, 4), rec("S", [3])]),                       # two Bell pairs across the cut {1,2}|{3,4}
               (3, [H(1), CX(1, 2), CX(1, 3), rec("SWAP", [1, 3]), rec("PauliY", [2])]),
               (2, [H(1), CX(1, 2)])]
    for i in range(nstab):
        n = rng.choice(ns + [4])
        a = _clifford(rng, n, rng.randint(2 * n - 1, 3 * n + 2))
        if i < len(special):
            n, a = special[i]
        b = _clifford(rng, n, rng.randint(0, 2 * n))
        cases.append({"kind": "circ", "n": n, "a": a, "b": b, "wa": 1, "wb": 0, "wk": 0, "stab": 1,
                      "subs": _subs(rng, n, common[n]), "mi": _disjoint_pairs(rng, n, 3)})
    # --- diagonal dyadic states: exhaustive small families + seeded
    def diag(n, k, c, d):
        return {"kind": "diag", "n": n, "k": k, "c": c, "d": d, "mi": _disjoint_pairs(rng, n, 2)}
    for k in (1, 2, 3):
        comps = list(compositions(1 << k, 2))
        for c in comps:
            for d in comps:
                cases.append(diag(1, k, c, d))
    comps = list(compositions(4, 4))
    pairs = list(itertools.product(comps, comps))
    if quick:
        pairs = rng.sample(pairs, 80) + [(c, c) for c in comps]
    for c, d in pairs:
        cases.append(diag(2, 2, c, d))
    nd_exh = len(cases)
    for _ in range(70 if quick else 800):
        n = rng.choice([2, 3, 3, 4] + ([] if quick else [5]))
        k = rng.choice([3, 4, 5])
        c = random_composition(rng, 1 << k, 1 << n)
        d = random_composition(rng, 1 << k, 1 << n, zeros=rng.choice([0.0, 0.0, 0.3]))
        cases.append(diag(n, k, c, d))
    # --- matrix expansion: every injective placement of a q-wire gate into n wires
    N = 1 << M
    gates = {1: [lambda: rec("T", [1]), lambda: rec("RX", [1], [rng.randrange(1, N)]),
                 lambda: rec("Rot", [1], [rng.randrange(N), rng.randrange(1, N), rng.randrange(N)]), lambda: rec("SX", [1])],
             2: [lambda: rec("CNOT", [1, 2]), lambda: rec("CRY", [1, 2], [rng.randrange(1, N)]),
                 lambda: rec("SISWAP", [1, 2]), lambda: rec("CH", [1, 2]), lambda: rec("SingleExcitationPlus", [1, 2], [rng.randrange(1, N)])],
             3: [lambda: rec("Toffoli", [1, 2, 3]), lambda: rec("CSWAP", [1, 2, 3]),
                 lambda: {**rec("RX", [1, 2, 3], [rng.randrange(1, N)]), "mods": [{"t": "ctrl", "cv": [1, 0]}]}]}
    for q in (1, 2, 3):
        for n in range(q, nmax + 1):
            for ws in itertools.permutations(range(1, n + 1), q):
                for mk in (gates[q] if (quick and n <= 3) or not quick else gates[q][:2]):
                    g = mk()
                    g["w"] = list(range(1, q + 1))
                    cases.append({"kind": "expand", "n": n, "gate": g, "ws": list(ws)})
    return cases, common, nd_exh


# ------------------------------------------------------------------------------------------- TLC
def run_qinfo(cases, M, name, workers=None, expect_violation=False):
    wd = lib.workdir("C49", name)
    (wd / "cases.json").write_text(json.dumps(cases))
    r = lib.run_tlc("QInfo", lib.cfg(constants={"M": M, "NCASES": len(cases)}, invariants=["ChkOK"]), wd,
                    env={"TRACE_FILE": str(wd / "cases.json")}, workers=workers, timeout=3000)
    if expect_violation:
        return r
    if r.invariant_violated:
        raise MachineryError(f"QInfo self-check {r.invariant_violated} violated (the spec's independent definitions disagree): "
                             + r.out[-1500:])
    lib.require_ok(r, f"QInfo {name}")
    out = [None] * len(cases)
    for j in r.json_lines:
        out[j["tid"] - 1] = j
    if any(o is None for o in out):
        raise MachineryError("QInfo did not emit every case")
    return out, r


# ------------------------------------------------------------------------------------------- comparison
class Ctx:
    def __init__(self, M):
        self.M = M
        self.viol = {}
        self.evals = 0
        self.by_fn = {}
        self.nontriv = set()
        self.bridged = 0

    def mat(self, m):
        return ring_matrix_to_numpy(m, self.M)

    def sc(self, s):
        return ring_to_complex(s["c"], s["k"], self.M)

    def add(self, key, detail, replay=None):
        if key not in self.viol:
            self.viol[key] = Violation(key=key, detail=detail, replay=replay)

    def call(self, fn, iface, tag, thunk, replay):
        """Run the implementation; an exception on a valid input is a violation."""
        self.evals += 1
        self.by_fn[fn] = self.by_fn.get(fn, 0) + 1
        try:
            return tonp(thunk())
        except Exception as e:  # noqa: BLE001
            self.add(f"{fn}:{iface}:{tag}:exception:{type(e).__name__}", f"{fn} raised {type(e).__name__}: {e}", replay)
            return None

    def cmp(self, fn, iface, tag, got, exp, replay, tol=TOL):
        if got is None:
            return False
        exp = np.asarray(exp)
        got = np.asarray(got)
        ok = got.shape == exp.shape and bool(np.all(np.isfinite(got) == np.isfinite(exp))) and \
            bool(np.allclose(np.where(np.isfinite(got), got, 0), np.where(np.isfinite(exp), exp, 0), atol=tol, rtol=0)) and \
            bool(np.all(np.where(np.isfinite(exp), True, got == exp)))
        if not ok:
            err = float(np.max(np.abs(got - exp))) if got.shape == exp.shape and np.all(np.isfinite(got)) and np.all(np.isfinite(exp)) else -1.0
            small = f"; got {got.tolist()!r}, expected {exp.tolist()!r}" if got.size <= 8 and exp.size <= 8 else ""
            self.add(f"{fn}:{iface}:{tag}", f"{fn} [{iface}] differs from the exact definition (max err {err:.3g}, shapes {got.shape} vs {exp.shape}{small})",
                     {**replay, "expected": repr(exp.tolist()), "got": repr(got.tolist())})
        return ok

    def bound(self, fn, tag, cond, detail, replay):
        self.bridged += 1
        if not cond:
            self.add(f"{fn}:bound:{tag}", detail, replay)


def idx0(ws):
    return [w - 1 for w in ws]


def diag_entropy(nums, k):
    return sum(x * math.log(p) for x, p in zip(nums, PRIMES)) / (1 << k)


def vn_from_spectrum(m):
    ev = np.linalg.eigvalsh(m)
    ev = ev[ev > 1e-14]
    return float(-np.sum(ev * np.log(ev)))


def eval_circ(ctx, c, o, ifaces, ci):
    n, M = c["n"], ctx.M
    a = ctx.mat(o["a"])[:, 0]
    b = ctx.mat(o["b"])[:, 0]
    rho = ctx.mat(o["rho"])
    pa = np.outer(a, a.conj())
    pb = np.outer(b, b.conj())
    pure = c["wb"] == 0
    base_rep = {"case": c}
    full = tuple(range(1, n + 1))
    for iface in ifaces:
        A, B, R, PA, PB = (to_if(x, iface) for x in (a, b, rho, pa, pb))
        for j, S in enumerate(c["subs"]):
            exp = ctx.mat(o["rdm"][j])
            expa = exp if pure else ctx.mat(o["rdma"][j])
            tag = f"n{n}:idx{idx0(S)}"
            rep = {**base_rep, "indices": idx0(S)}
            g = ctx.call("reduce_dm", iface, tag, lambda: QM.reduce_dm(R, idx0(S)), rep)
            if ctx.cmp("reduce_dm", iface, tag, g, exp, rep) and len(S) < n:
                ctx.nontriv.add(("reduce_dm", ci, tuple(S)))
            g = ctx.call("reduce_statevector", iface, tag, lambda: QM.reduce_statevector(A, idx0(S)), rep)
            if ctx.cmp("reduce_statevector", iface, tag, g, expa, rep):
                ctx.nontriv.add(("reduce_statevector", ci, tuple(S)))
            if S == sorted(S):
                traced = [w - 1 for w in range(1, n + 1) if w not in S]
                g = ctx.call("partial_trace", iface, f"n{n}:traced{traced}", lambda: QM.partial_trace(R, traced), rep)
                ctx.cmp("partial_trace", iface, f"n{n}:traced{traced}", g, exp, {**base_rep, "traced": traced})
                if tuple(S) == full:
                    g = ctx.call("dm_from_state_vector", iface, f"n{n}", lambda: QM.dm_from_state_vector(A), rep)
                    ctx.cmp("dm_from_state_vector", iface, f"n{n}", g, expa, rep)
            if iface == "numpy":
                # bridged: entropy = eigenvalue formula on TLC's exact reduced matrix
                g = ctx.call("vn_entropy", iface, tag, lambda: QM.vn_entropy(R, idx0(S)), rep)
                ctx.cmp("vn_entropy", iface, tag + ":spectrum", g, vn_from_spectrum(exp), rep, tol=1e-7)
                ctx.bridged += 1
        # full trace
        g = ctx.call("partial_trace", iface, f"n{n}:all", lambda: QM.partial_trace(R, list(range(n))), base_rep)
        ctx.cmp("partial_trace", iface, f"n{n}:all", g, np.array([[1.0 + 0j]]), base_rep)
        # purity of every subset (ascending order and one permuted order)
        for m in range(1, 1 << n):
            if iface != "numpy" and (m + ci) % 2:
                continue
            ws = wires_of(m, n)
            exp = ctx.sc(o["pur"][m - 1]).real
            tag = f"n{n}:idx{idx0(ws)}"
            rep = {**base_rep, "indices": idx0(ws)}
            g = ctx.call("purity", iface, tag, lambda: QM.purity(R, idx0(ws)), rep)
            if ctx.cmp("purity", iface, tag, g, exp, rep) and 1e-6 < exp < 1 - 1e-6:
                ctx.nontriv.add(("purity", ci, m))
            if len(ws) >= 2 and iface == "numpy":
                rv = idx0(ws)[::-1]
                g = ctx.call("purity", iface, f"n{n}:idx{rv}", lambda: QM.purity(R, rv), rep)
                ctx.cmp("purity", iface, f"n{n}:idx{rv}", g, exp, {**base_rep, "indices": rv})
        # fidelities
        fid = ctx.sc(o["fid"]).real
        fam = ctx.sc(o["fam"]).real
        fbm = ctx.sc(o["fbm"]).real
        rep = base_rep
        g = ctx.call("fidelity_statevector", iface, f"n{n}", lambda: QM.fidelity_statevector(A, B), rep)
        if ctx.cmp("fidelity_statevector", iface, f"n{n}", g, fid, rep) and 1e-6 < fid < 1 - 1e-6:
            ctx.nontriv.add(("fidelity_statevector", ci))
        g2 = ctx.call("fidelity_statevector", iface, f"n{n}:swap", lambda: QM.fidelity_statevector(B, A), rep)
        ctx.cmp("fidelity_statevector", iface, f"n{n}:swap", g2, fid, rep)
        for tag, x, y, e in (("pure-pure", PA, PB, fid), ("pure-pure:swap", PB, PA, fid), ("pure-mixed", PA, R, fam),
                             ("mixed-pure", R, PA, fam), ("pure-mixed-b", PB, R, fbm), ("same", R, R, 1.0)):
            g = ctx.call("fidelity", iface, f"n{n}:{tag}", lambda: QM.fidelity(x, y), rep)
            if ctx.cmp("fidelity", iface, f"n{n}:{tag}", g, e, rep, tol=TOL_F) and 1e-6 < e < 1 - 1e-6:
                ctx.nontriv.add(("fidelity", ci, tag))
            if g is not None:
                ctx.bound("fidelity", "range", -TOL_F <= float(np.real(g)) <= 1 + TOL_F, f"fidelity {g} outside [0,1]", rep)
        # trace distance of pure states: sqrt(1 - F)  (sqrt applied to TLC's exact F in the harness)
        td = math.sqrt(max(0.0, 1.0 - fid))
        g = ctx.call("trace_distance", iface, f"n{n}:pure-pure", lambda: QM.trace_distance(PA, PB), rep)
        ctx.cmp("trace_distance", iface, f"n{n}:pure-pure", g, td, rep, tol=1e-7)
        # pure (rank one) state against the maximally mixed state: S(|a><a| || 1/D) = ln D  (definition; S(|a><a|) = 0)
        if iface == "numpy" or ci % 2 == 0:
            tag = f"rankdef-vs-maxmixed:pure:n{n}"
            g0 = ctx.call("relative_entropy", iface, tag, lambda: QM.relative_entropy(PA, to_if(np.eye(1 << n, dtype=complex) / (1 << n), iface)), rep)
            ctx.cmp("relative_entropy", iface, tag, g0, n * LN2, rep)
        if iface == "numpy":
            t_ab = g
            t_ba = ctx.call("trace_distance", iface, f"n{n}:swap", lambda: QM.trace_distance(PB, PA), rep)
            t_ar = ctx.call("trace_distance", iface, f"n{n}:a-rho", lambda: QM.trace_distance(PA, R), rep)
            t_rb = ctx.call("trace_distance", iface, f"n{n}:rho-b", lambda: QM.trace_distance(R, PB), rep)
            t_rr = ctx.call("trace_distance", iface, f"n{n}:rho-rho", lambda: QM.trace_distance(R, R), rep)
            if None not in (t_ab, t_ba, t_ar, t_rb, t_rr):
                ctx.bound("trace_distance", "symmetry", abs(t_ab - t_ba) < TOL, f"T(a,b)={t_ab} != T(b,a)={t_ba}", rep)
                ctx.bound("trace_distance", "identity", abs(t_rr) < TOL, f"T(rho,rho)={t_rr}", rep)
                ctx.bound("trace_distance", "triangle", t_ab <= t_ar + t_rb + TOL, f"T(a,b)={t_ab} > T(a,rho)+T(rho,b)={t_ar + t_rb}", rep)
                ctx.bound("trace_distance", "range", -TOL <= min(t_ab, t_ar, t_rb) and max(t_ab, t_ar, t_rb) <= 1 + TOL, "T outside [0,1]", rep)
                # mixture: rho = (wa Pa + wb Pb)/2^wk  =>  T(a, rho) = (wb/2^wk) T(a, b)  (linearity of the definition)
                ctx.cmp("trace_distance", iface, f"n{n}:pure-mixture", t_ar, c["wb"] / (1 << c["wk"]) * td, rep, tol=1e-7)
        # stabiliser entropies (integers from the GF(2) rank)
        if c["stab"] == 1:
            for m in range(1, 1 << n):
                if iface != "numpy" and (m + ci) % 3:
                    continue
                ws = wires_of(m, n)
                r = o["ent"][m - 1]
                tag = f"n{n}:idx{idx0(ws)}"
                rep = {**base_rep, "indices": idx0(ws), "expected_bits": r}
                for fn in ("vn_entropy", "max_entropy", "min_entropy"):
                    f = getattr(QM, fn)
                    g = ctx.call(fn, iface, tag, lambda: f(R, idx0(ws)), rep)
                    ok = ctx.cmp(fn, iface, tag, g, r * LN2, rep)
                    if m % 2 == 0:
                        g = ctx.call(fn, iface, tag + ":base2", lambda: f(R, idx0(ws), base=2), rep)
                        ctx.cmp(fn, iface, tag + ":base2", g, float(r), rep)
                    if ok and r > 0:
                        ctx.nontriv.add((fn, ci, m))
                if m != (1 << n) - 1:
                    rest = [w for w in range(1, n + 1) if w not in ws]
                    g = ctx.call("vn_entanglement_entropy", iface, tag, lambda: QM.vn_entanglement_entropy(R, idx0(ws), idx0(rest)), rep)
                    ctx.cmp("vn_entanglement_entropy", iface, tag, g, r * LN2, rep)
            for j, (wa_, wb_) in enumerate(c["mi"]):
                r = o["mi"][j]
                tag = f"n{n}:idx{idx0(wa_)}|{idx0(wb_)}"
                rep = {**base_rep, "indices0": idx0(wa_), "indices1": idx0(wb_), "expected_bits": r}
                g = ctx.call("mutual_info", iface, tag, lambda: QM.mutual_info(R, idx0(wa_), idx0(wb_)), rep)
                if ctx.cmp("mutual_info", iface, tag, g, r * LN2, rep) and r > 0:
                    ctx.nontriv.add(("mutual_info", ci, j))
                g = ctx.call("mutual_info", iface, tag + ":base2", lambda: QM.mutual_info(R, idx0(wa_), idx0(wb_), base=2), rep)
                ctx.cmp("mutual_info", iface, tag + ":base2", g, float(r), rep)
            # mixed (rank-deficient) stabiliser input: TLC's exact reduced matrix on W as the state, sub-subsets of W
            for j, W in enumerate(c["subs"]):
                if len(W) == n or (iface != "numpy" and j % 2):
                    continue
                RW = to_if(ctx.mat(o["rdm"][j]), iface)
                # relative entropy to the maximally mixed state: S(rho || 1/D) = ln D - S(rho) = (|W| - r) ln 2
                rW = o["ent"][mask_of(W, n) - 1]
                tag = f"rankdef-vs-maxmixed:n{len(W)}"
                rep = {**base_rep, "state": f"reduced on wires {idx0(W)}", "second": "identity/2^n", "expected_bits": len(W) - rW}
                g = ctx.call("relative_entropy", iface, tag, lambda: QM.relative_entropy(RW, to_if(np.eye(1 << len(W), dtype=complex) / (1 << len(W)), iface)), rep)
                if ctx.cmp("relative_entropy", iface, tag, g, (len(W) - rW) * LN2, rep) and len(W) > rW:
                    ctx.nontriv.add(("relative_entropy:stab", ci, j))
                for sz in range(1, len(W) + 1):
                    for pos in itertools.combinations(range(len(W)), sz):
                        ws = [W[p] for p in pos]
                        r = o["ent"][mask_of(ws, n) - 1]
                        tag = f"mixed:n{len(W)}:idx{list(pos)}"
                        rep = {**base_rep, "state": f"reduced on wires {idx0(W)}", "indices": list(pos), "expected_bits": r}
                        g = ctx.call("vn_entropy", iface, tag, lambda: QM.vn_entropy(RW, list(pos)), rep)
                        if ctx.cmp("vn_entropy", iface, tag, g, r * LN2, rep) and r > 0:
                            ctx.nontriv.add(("vn_entropy:mixed", ci, j, pos))
                        g = ctx.call("purity", iface, tag, lambda: QM.purity(RW, list(pos)), rep)
                        ctx.cmp("purity", iface, tag, g, 2.0 ** (-r), rep)
                        if iface == "numpy" and sz == len(W):
                            g = ctx.call("max_entropy", iface, tag, lambda: QM.max_entropy(RW, list(pos)), rep)
                            ctx.cmp("max_entropy", iface, tag, g, r * LN2, rep)
                            g = ctx.call("min_entropy", iface, tag, lambda: QM.min_entropy(RW, list(pos)), rep)
                            ctx.cmp("min_entropy", iface, tag, g, r * LN2, rep)


def local_rotation(rng, n):
    h = np.array([[1, 1], [1, -1]], dtype=complex) / math.sqrt(2)
    s = np.diag([1, 1j])
    t = np.diag([1, np.exp(0.25j * math.pi)])
    u = np.array([[1.0 + 0j]])
    for _ in range(n):
        u = np.kron(u, rng.choice([np.eye(2, dtype=complex), h, s @ h, h @ t @ h]))
    return u


def eval_diag(ctx, c, o, ifaces, ci, rng):
    n, k = c["n"], c["k"]
    T = 1 << k
    cs, ds = np.array(c["c"], dtype=float) / T, np.array(c["d"], dtype=float) / T
    rho0, sig0 = np.diag(cs).astype(complex), np.diag(ds).astype(complex)
    base_rep = {"case": c}
    variants = [("diag", rho0, sig0)]
    if n >= 1 and ci % 3 == 0:
        u = local_rotation(rng, n)
        variants.append(("rotated", u @ rho0 @ u.conj().T, u @ sig0 @ u.conj().T))
    for vname, rho, sig in variants:
        for iface in ifaces:
            R, S = to_if(rho, iface), to_if(sig, iface)
            for m in range(1, 1 << n):
                ws = wires_of(m, n)
                tag = f"{vname}:n{n}:idx{idx0(ws)}"
                rep = {**base_rep, "variant": vname, "indices": idx0(ws)}
                e = diag_entropy(o["entc"][m - 1], k)
                g = ctx.call("vn_entropy", iface, tag, lambda: QM.vn_entropy(R, idx0(ws)), rep)
                if ctx.cmp("vn_entropy", iface, tag, g, e, rep) and e > 1e-6 and len(set(o["margc"][m - 1])) > 2:
                    ctx.nontriv.add(("vn_entropy:diag", ci, m))
                if iface == "numpy":
                    g = ctx.call("max_entropy", iface, tag, lambda: QM.max_entropy(R, idx0(ws)), rep)
                    ctx.cmp("max_entropy", iface, tag, g, math.log(o["cnt"][m - 1]), rep)
                    g = ctx.call("min_entropy", iface, tag, lambda: QM.min_entropy(R, idx0(ws)), rep)
                    ctx.cmp("min_entropy", iface, tag, g, -math.log(o["mx"][m - 1] / T), rep)
                    mg = np.array(o["margc"][m - 1], dtype=float) / T
                    g = ctx.call("purity", iface, tag, lambda: QM.purity(R, idx0(ws)), rep)
                    ctx.cmp("purity", iface, tag, g, float(np.sum(mg * mg)), rep)
                    if vname == "diag":
                        g = ctx.call("reduce_dm", iface, tag, lambda: QM.reduce_dm(R, idx0(ws)), rep)
                        ctx.cmp("reduce_dm", iface, tag, g, np.diag(mg).astype(complex), rep)
                    if g is not None:
                        ctx.bound("vn_entropy", "range", -TOL <= e <= len(ws) * LN2 + TOL, "entropy outside [0, |A| ln 2]", rep)
            for j, (wa_, wb_) in enumerate(c["mi"]):
                e = diag_entropy(o["mi"][j], k)
                tag = f"{vname}:n{n}:idx{idx0(wa_)}|{idx0(wb_)}"
                rep = {**base_rep, "variant": vname, "indices0": idx0(wa_), "indices1": idx0(wb_)}
                g = ctx.call("mutual_info", iface, tag, lambda: QM.mutual_info(R, idx0(wa_), idx0(wb_)), rep)
                if ctx.cmp("mutual_info", iface, tag, g, e, rep) and e > 1e-6:
                    ctx.nontriv.add(("mutual_info:diag", ci, j))
                if g is not None:
                    ctx.bound("mutual_info", "nonneg", float(g) >= -TOL, f"mutual information {g} < 0", rep)
            # relative entropy (both orders); for the rotated variant only with full-rank second argument
            for tag0, x, y, inf, nums, full_rank in (("rho|sigma", R, S, o["relinf"], o["rel"], min(c["d"]) > 0),
                                                    ("sigma|rho", S, R, o["relinf2"], o["rel2"], min(c["c"]) > 0)):
                if vname == "rotated" and not (min(c["c"]) > 0 and min(c["d"]) > 0):
                    continue
                tag = f"{vname}:n{n}:{tag0}" + (":inf" if inf else "")
                rep = {**base_rep, "variant": vname, "order": tag0}
                e = math.inf if inf else diag_entropy(nums, k)
                g = ctx.call("relative_entropy", iface, tag, lambda: QM.relative_entropy(x, y), rep)
                if ctx.cmp("relative_entropy", iface, tag, g, e, rep) and not inf and e > 1e-6:
                    ctx.nontriv.add(("relative_entropy", ci, tag0))
                if g is not None:
                    ctx.bound("relative_entropy", "nonneg", float(g) >= -TOL, f"relative entropy {g} < 0", rep)
            e = o["td"] / (2 * T)
            rep = {**base_rep, "variant": vname}
            g = ctx.call("trace_distance", iface, f"{vname}:n{n}", lambda: QM.trace_distance(R, S), rep)
            if ctx.cmp("trace_distance", iface, f"{vname}:n{n}", g, e, rep) and 1e-6 < e < 1 - 1e-6:
                ctx.nontriv.add(("trace_distance", ci))
            g2 = ctx.call("trace_distance", iface, f"{vname}:n{n}:swap", lambda: QM.trace_distance(S, R), rep)
            ctx.cmp("trace_distance", iface, f"{vname}:n{n}:swap", g2, e, rep)
            # commuting states: F = (SUM sqrt(c_i d_i))^2 / 4^k  (sqrt of TLC's exact integers applied in the harness)
            e = sum(math.sqrt(x) for x in o["fprod"]) ** 2 / (T * T)
            g = ctx.call("fidelity", iface, f"{vname}:n{n}:commuting", lambda: QM.fidelity(R, S), rep)
            if ctx.cmp("fidelity", iface, f"{vname}:n{n}:commuting", g, e, rep, tol=TOL_F) and 1e-6 < e < 1 - 1e-6:
                ctx.nontriv.add(("fidelity:diag", ci))
            g2 = ctx.call("fidelity", iface, f"{vname}:n{n}:commuting:swap", lambda: QM.fidelity(S, R), rep)
            ctx.cmp("fidelity", iface, f"{vname}:n{n}:commuting:swap", g2, e, rep, tol=TOL_F)
            if iface == "numpy" and vname == "diag":
                g = ctx.call("sqrt_matrix", iface, f"n{n}", lambda: QM.sqrt_matrix(R), rep)
                ctx.cmp("sqrt_matrix", iface, f"n{n}", g, np.diag(np.sqrt(cs)).astype(complex), rep)


LABELS = ["q0", 7, "aux", 2, "b"]


def eval_expand(ctx, group, ifaces):
    """group: list of (case, out) with the same (n, ws): unbatched per case, then one batched call."""
    c0 = group[0][0]
    n, ws = c0["n"], c0["ws"]
    wires = [LABELS[w - 1] for w in ws]
    order = LABELS[:n]
    mats, exps = [], []
    for c, o in group:
        if not o["agree"]:
            raise MachineryError("ExpandDef disagrees with CMat!ApplyGate")
        mats.append(ctx.mat(o["mat"]))
        exps.append(ctx.mat(o["exp"]))
    tag = f"n{n}:wires{idx0(ws)}"
    for iface in ifaces:
        for (c, o), m, e in zip(group, mats, exps):
            rep = {"case": c, "wires": wires, "wire_order": order}
            g = ctx.call("expand_matrix", iface, tag, lambda: QM.expand_matrix(to_if(m, iface), wires, wire_order=order), rep)
            if ctx.cmp("expand_matrix", iface, tag, g, e, rep) and (n > len(ws) or list(ws) != sorted(ws)):
                ctx.nontriv.add(("expand_matrix", c["gate"]["g"], n, tuple(ws)))
        if len(group) >= 2:
            rep = {"cases": [c for c, _ in group], "wires": wires, "wire_order": order}
            g = ctx.call("expand_matrix", iface, tag + ":batched", lambda: QM.expand_matrix(to_if(np.stack(mats), iface), wires, wire_order=order), rep)
            ctx.cmp("expand_matrix", iface, tag + ":batched", g, np.stack(exps), rep)
    from scipy.sparse import csr_matrix
    (c, o), m, e = group[0], mats[0], exps[0]
    rep = {"case": c, "wires": wires, "wire_order": order}
    g = ctx.call("expand_matrix", "scipy", tag, lambda: QM.expand_matrix(csr_matrix(m), wires, wire_order=order), rep)
    ctx.cmp("expand_matrix", "scipy", tag, g, e, rep)


def eval_batched(ctx, cases, outs, common, ifaces, jax_n=(2, 3)):
    """Batch dimension: stack the exact states of the circuits with the same number of wires."""
    nb = 0
    for n, subs in common.items():
        idxs = [i for i, (c, o) in enumerate(zip(cases, outs)) if c["kind"] == "circ" and c["n"] == n and not o["skip"]][:6]
        if len(idxs) < 2:
            continue
        A = np.stack([ctx.mat(outs[i]["a"])[:, 0] for i in idxs])
        B = np.stack([ctx.mat(outs[i]["b"])[:, 0] for i in idxs])
        R = np.stack([ctx.mat(outs[i]["rho"]) for i in idxs])
        PA = np.einsum("bi,bj->bij", A, A.conj())
        PB = np.einsum("bi,bj->bij", B, B.conj())
        rep0 = {"batch_of_cases": [cases[i] for i in idxs]}
        for iface in ifaces:
            if iface == "jax" and n not in jax_n:
                continue
            a_, b_, r_, pa_, pb_ = (to_if(x, iface) for x in (A, B, R, PA, PB))
            for S in subs:
                j = [cases[i]["subs"].index(S) for i in idxs]
                exp = np.stack([ctx.mat(outs[i]["rdm"][jj]) for i, jj in zip(idxs, j)])
                expa = np.stack([ctx.mat(outs[i]["rdm"][jj] if cases[i]["wb"] == 0 else outs[i]["rdma"][jj]) for i, jj in zip(idxs, j)])
                tag = f"batched:n{n}:idx{idx0(S)}"
                rep = {**rep0, "indices": idx0(S)}
                g = ctx.call("reduce_dm", iface, tag, lambda: QM.reduce_dm(r_, idx0(S)), rep)
                ctx.cmp("reduce_dm", iface, tag, g, exp, rep)
                g = ctx.call("reduce_statevector", iface, tag, lambda: QM.reduce_statevector(a_, idx0(S)), rep)
                ctx.cmp("reduce_statevector", iface, tag, g, expa, rep)
                if S == sorted(S) and len(S) < n:
                    traced = [w - 1 for w in range(1, n + 1) if w not in S]
                    g = ctx.call("partial_trace", iface, f"batched:n{n}:traced{traced}", lambda: QM.partial_trace(r_, traced), rep)
                    ctx.cmp("partial_trace", iface, f"batched:n{n}:traced{traced}", g, exp, rep)
                m = mask_of(S, n)
                exp = np.array([ctx.sc(outs[i]["pur"][m - 1]).real for i in idxs])
                g = ctx.call("purity", iface, tag, lambda: QM.purity(r_, idx0(S)), rep)
                ctx.cmp("purity", iface, tag, g, exp, rep)
                nb += 4
            fid = np.array([ctx.sc(outs[i]["fid"]).real for i in idxs])
            fam = np.array([ctx.sc(outs[i]["fam"]).real for i in idxs])
            g = ctx.call("fidelity_statevector", iface, f"batched:n{n}", lambda: QM.fidelity_statevector(a_, b_), rep0)
            ctx.cmp("fidelity_statevector", iface, f"batched:n{n}", g, fid, rep0)
            g = ctx.call("fidelity", iface, f"batched:n{n}:pure-pure", lambda: QM.fidelity(pa_, pb_), rep0)
            ctx.cmp("fidelity", iface, f"batched:n{n}:pure-pure", g, fid, rep0, tol=TOL_F)
            g = ctx.call("fidelity", iface, f"batched:n{n}:pure-mixed", lambda: QM.fidelity(pa_, r_), rep0)
            ctx.cmp("fidelity", iface, f"batched:n{n}:pure-mixed", g, fam, rep0, tol=TOL_F)
            # one state against a batch
            f0 = np.array([abs(np.vdot(A[0], B[t])) ** 2 for t in range(len(idxs))])   # |<a0|b_t>|^2, exact vectors from TLC
            g = ctx.call("fidelity_statevector", iface, f"batched:n{n}:one-vs-batch", lambda: QM.fidelity_statevector(a_[0], b_), rep0)
            ctx.cmp("fidelity_statevector", iface, f"batched:n{n}:one-vs-batch", g, f0, rep0)
            g = ctx.call("trace_distance", iface, f"batched:n{n}", lambda: QM.trace_distance(pa_, pb_), rep0)
            ctx.cmp("trace_distance", iface, f"batched:n{n}", g, np.sqrt(np.maximum(0, 1 - fid)), rep0, tol=1e-7)
            nb += 5
        # batched stabiliser entropies
        sidx = [i for i, (c, o) in enumerate(zip(cases, outs)) if c["kind"] == "circ" and c["n"] == n and c["stab"] == 1 and not o["skip"]][:6]
        if len(sidx) >= 2:
            R = np.stack([ctx.mat(outs[i]["rho"]) for i in sidx])
            rep0 = {"batch_of_cases": [cases[i] for i in sidx]}
            for iface in ifaces:
                if iface == "jax" and n not in jax_n:
                    continue
                r_ = to_if(R, iface)
                for m in range(1, 1 << n):
                    ws = wires_of(m, n)
                    exp = np.array([outs[i]["ent"][m - 1] * LN2 for i in sidx])
                    tag = f"batched:n{n}:idx{idx0(ws)}"
                    rep = {**rep0, "indices": idx0(ws)}
                    for fn in ("vn_entropy", "max_entropy", "min_entropy"):
                        f = getattr(QM, fn)
                        g = ctx.call(fn, iface, tag, lambda: f(r_, idx0(ws)), rep)
                        ctx.cmp(fn, iface, tag, g, exp, rep)
                        nb += 1
    return nb


def random_states_bounds(ctx, rng, tier):
    """Bridged: bounds / metric axioms on the outputs for seeded random pure and mixed states of 1-5 qubits
    (full rank and rank deficient).  No expected values here, only the inequalities of the statement."""
    nr = np.random.default_rng(rng.randrange(1 << 30))
    cnt = 0
    for it in range(40 if tier == "quick" else 400):
        n = 1 + it % 5
        D = 1 << n

        def rstate(rank):
            g = nr.normal(size=(D, rank)) + 1j * nr.normal(size=(D, rank))
            m = g @ g.conj().T
            return m / np.trace(m).real
        ranks = [1, max(1, D // 2), D]
        x, y, z = (rstate(nr.choice(ranks)) for _ in range(3))
        rep = {"n": n, "seeded_random_states": True, "iteration": it}
        f_xy = ctx.call("fidelity", "numpy", "random", lambda: QM.fidelity(x, y), rep)
        f_yx = ctx.call("fidelity", "numpy", "random", lambda: QM.fidelity(y, x), rep)
        if f_xy is not None and f_yx is not None:
            ctx.bound("fidelity", "range:random", -TOL_F <= f_xy <= 1 + TOL_F, f"fidelity {f_xy} outside [0,1]", rep)
            ctx.bound("fidelity", "symmetry:random", abs(f_xy - f_yx) < 10 * TOL_F, f"F(x,y)={f_xy} != F(y,x)={f_yx}", rep)
        t = {}
        for nm, (p, q) in {"xy": (x, y), "yx": (y, x), "yz": (y, z), "xz": (x, z), "xx": (x, x)}.items():
            t[nm] = ctx.call("trace_distance", "numpy", "random", lambda: QM.trace_distance(p, q), rep)
        if None not in t.values():
            ctx.bound("trace_distance", "symmetry:random", abs(t["xy"] - t["yx"]) < TOL, "T not symmetric", rep)
            ctx.bound("trace_distance", "triangle:random", t["xz"] <= t["xy"] + t["yz"] + TOL, "triangle inequality fails", rep)
            ctx.bound("trace_distance", "identity:random", abs(t["xx"]) < TOL and t["xy"] > 1e-6, "T(x,x) != 0 or T(x,y) = 0 for x != y", rep)
            ctx.bound("trace_distance", "range:random", 0 <= t["xy"] <= 1 + TOL, "T outside [0,1]", rep)
            if f_xy is not None:  # Fuchs - van de Graaf
                ctx.bound("trace_distance", "fuchs-graaf:random", 1 - math.sqrt(max(f_xy, 0)) <= t["xy"] + 1e-6 and t["xy"] <= math.sqrt(max(0, 1 - f_xy)) + 1e-6,
                          f"Fuchs-van de Graaf violated: F={f_xy}, T={t['xy']}", rep)
        if n >= 2:
            k = int(nr.integers(1, n))
            perm = [int(v) for v in nr.permutation(n)]
            i0, i1 = perm[:k], perm[k:]
            sa = ctx.call("vn_entropy", "numpy", "random", lambda: QM.vn_entropy(x, i0), rep)
            sb = ctx.call("vn_entropy", "numpy", "random", lambda: QM.vn_entropy(x, i1), rep)
            sab = ctx.call("vn_entropy", "numpy", "random", lambda: QM.vn_entropy(x, sorted(i0 + i1)), rep)
            mi = ctx.call("mutual_info", "numpy", "random", lambda: QM.mutual_info(x, i0, i1), rep)
            if None not in (sa, sb, sab, mi):
                ctx.bound("vn_entropy", "range:random", -TOL <= sa <= len(i0) * LN2 + TOL and -TOL <= sab <= n * LN2 + TOL, "entropy outside [0, |A| ln 2]", rep)
                ctx.bound("vn_entropy", "subadditivity:random", sab <= sa + sb + TOL, f"S(AB)={sab} > S(A)+S(B)={sa + sb}", rep)
                ctx.bound("vn_entropy", "araki-lieb:random", abs(sa - sb) <= sab + TOL, "|S(A)-S(B)| > S(AB)", rep)
                ctx.bound("mutual_info", "nonneg:random", mi >= -TOL and abs(mi - (sa + sb - sab)) < TOL, f"mutual information {mi}", rep)
            mn = ctx.call("min_entropy", "numpy", "random", lambda: QM.min_entropy(x, i0), rep)
            mxe = ctx.call("max_entropy", "numpy", "random", lambda: QM.max_entropy(x, i0), rep)
            if None not in (mn, mxe, sa):
                ctx.bound("min_entropy", "order:random", mn <= sa + TOL and sa <= mxe + TOL, f"H_min={mn} <= S={sa} <= H_max={mxe} fails", rep)
        full = rstate(D)
        re = ctx.call("relative_entropy", "numpy", "random", lambda: QM.relative_entropy(x, full), rep)
        re0 = ctx.call("relative_entropy", "numpy", "random", lambda: QM.relative_entropy(full, full), rep)
        if re is not None and re0 is not None:
            ctx.bound("relative_entropy", "nonneg:random", re >= -1e-7 and np.isfinite(re), f"S(x||full rank)={re}", rep)
            ctx.bound("relative_entropy", "zero:random", abs(re0) < 1e-7, f"S(s||s)={re0}", rep)
        cnt += 1
    return cnt


# ------------------------------------------------------------------------------------------- run
def run(tier, seed):
    quick = tier == "quick"
    M = 3 if quick else 4
    rng = random.Random(seed)
    cases, common, _ = gen_cases(tier, seed, M)
    outs, r = run_qinfo(cases, M, "main")
    ctx = Ctx(M)
    skipped = sum(1 for o in outs if o["skip"])
    if skipped > 0.2 * len(cases):
        raise MachineryError(f"{skipped} of {len(cases)} cases skipped by the overflow guard")
    counts = {"circ": 0, "stab": 0, "diag": 0, "expand": 0}
    groups = {}
    for ci, (c, o) in enumerate(zip(cases, outs)):
        if o["skip"]:
            continue
        if c["kind"] == "circ":
            # jax compiles every new (function, shape, index list): keep it to a subset of the cases in the quick tier
            ifs = (IFACES if ci % (24 if quick else 8) == 0 else NOJAX) if ci % 4 == 0 else ["numpy"] if quick else ["numpy", NOJAX[1 + ci % 2]]
            eval_circ(ctx, c, o, ifs, ci)
            counts["stab" if c["stab"] else "circ"] += 1
        elif c["kind"] == "diag":
            ifs = (IFACES if ci % (100 if quick else 40) == 0 else NOJAX) if ci % 10 == 0 else ["numpy"]
            eval_diag(ctx, c, o, ifs, ci, rng)
            counts["diag"] += 1
        else:
            groups.setdefault((c["n"], tuple(c["ws"])), []).append((c, o))
            counts["expand"] += 1
    for gi, (key, grp) in enumerate(sorted(groups.items())):
        eval_expand(ctx, grp, (IFACES if gi % 18 == 0 else NOJAX) if gi % 3 == 0 else ["numpy", NOJAX[1 + gi % 2]])
    nbatched = eval_batched(ctx, cases, outs, common, IFACES, jax_n=(2,) if quick else (1, 2, 3, 4, 5))
    nrandom = random_states_bounds(ctx, rng, tier)
    # vacuity
    stab_ent = [e for c, o in zip(cases, outs) if c["kind"] == "circ" and c["stab"] and not o["skip"] for e in o["ent"]]
    if counts["stab"] < 20 or sum(1 for e in stab_ent if e >= 1) < 50 or sum(1 for e in stab_ent if e >= 2) < 3:
        raise MachineryError("vacuity: too few entangled stabiliser subsets")
    mixed = sum(1 for c, o in zip(cases, outs) if c["kind"] == "circ" and c["wb"] and not o["skip"])
    if mixed < 20 or counts["expand"] < 50 or counts["diag"] < 100:
        raise MachineryError(f"vacuity: {counts} mixed={mixed}")
    # --- negative controls (hand-written)
    neg = 0
    # (1) TLC side: a diagonal 'state' whose numerators do not sum to 2^k must violate ChkOK
    bad = [{"kind": "diag", "n": 1, "k": 2, "c": [3, 2], "d": [2, 2], "mi": []}]
    rb = run_qinfo(bad, M, "neg", workers=2, expect_violation=True)
    if rb.invariant_violated != "ChkOK":
        raise MachineryError("negative control accepted: TLC did not reject an unnormalised diagonal state")
    neg += 1
    # (2) comparator: Bell state, wrong reduced matrix / wrong entropy must be rejected
    tmp = Ctx(M)
    bell = np.array([1, 0, 0, 1], dtype=complex) / math.sqrt(2)
    g = tmp.call("reduce_statevector", "numpy", "neg", lambda: QM.reduce_statevector(bell, [0]), {})
    tmp.cmp("reduce_statevector", "numpy", "neg", g, np.array([[0.5, 0.5], [0.5, 0.5]], dtype=complex), {})
    g = tmp.call("vn_entropy", "numpy", "neg", lambda: QM.vn_entropy(np.outer(bell, bell.conj()), [0]), {})
    tmp.cmp("vn_entropy", "numpy", "neg", g, 0 * LN2, {})
    g = tmp.call("expand_matrix", "numpy", "neg", lambda: QM.expand_matrix(np.array([[1, 0, 0, 0], [0, 1, 0, 0], [0, 0, 0, 1], [0, 0, 1, 0.0]]), [1, 0], wire_order=[0, 1]), {})
    tmp.cmp("expand_matrix", "numpy", "neg", g, np.array([[1, 0, 0, 0], [0, 1, 0, 0], [0, 0, 0, 1], [0, 0, 1, 0.0]]), {})
    if len(tmp.viol) != 3:
        raise MachineryError(f"negative control accepted by the comparator ({sorted(tmp.viol)})")
    neg += 3
    samples = []
    for c, o in zip(cases, outs):
        if c["kind"] == "circ" and c["stab"] and not o["skip"] and max(o["ent"]) >= 2 and len(samples) < 2:
            samples.append({"clifford_circuit": [(g["g"], g["w"]) for g in c["a"]], "n": c["n"],
                            "entropy_bits_per_subset_mask": o["ent"]})
    for c, o in zip(cases, outs):
        if c["kind"] == "diag" and c["n"] == 2 and not o["relinf"] and c["c"] != c["d"] and len(samples) < 3:
            samples.append({"diag_numerators_c": c["c"], "d": c["d"], "k": c["k"], "relative_entropy_numerators_over_primes": o["rel"],
                            "trace_distance_num": o["td"]})
    for c, o in zip(cases, outs):
        if c["kind"] == "expand" and c["n"] == 3 and c["ws"] == [3, 1] and len(samples) < 4:
            samples.append({"expand": c["gate"]["g"], "wires": idx0(c["ws"]), "n": c["n"]})
    fn_nontriv = {}
    for t in ctx.nontriv:
        fn_nontriv[t[0]] = fn_nontriv.get(t[0], 0) + 1
    cov = {"states": r.distinct + rb.distinct, "transitions": r.generated + rb.generated,
           "traces_validated_against_impl": len(cases) - skipped, "evaluations": ctx.evals,
           "distinct_nontrivial": len(ctx.nontriv),
           "rule": "distinct (function, case, index set) whose exact expectation from TLC is non-trivial (proper subset / permuted wires for "
                   "reductions and expansions; purity, fidelity, trace distance strictly inside (0,1); entropy / mutual information / relative "
                   "entropy > 0 with a non-flat spectrum for diagonal states) and whose comparison with the implementation was made",
           "nontrivial_by_function": fn_nontriv, "calls_by_function": ctx.by_fn,
           "cases": counts, "mixed_state_cases": mixed, "skipped_by_overflow_guard": skipped,
           "stabiliser_subsets_entropy_ge1": sum(1 for e in stab_ent if e >= 1),
           "batched_calls": nbatched, "random_state_bound_rounds": nrandom, "bridged_checks": ctx.bridged,
           "interfaces": IFACES + ["scipy (expand_matrix)"], "ring_level_M": M,
           "samples": samples, "exhaustive": False,
           "exhaustive_parts": "1-qubit dyadic pairs k<=3; every injective placement of 1-3 wire gates into <= %d wires" % (4 if quick else 5),
           "negative_controls_rejected": neg,
           "tlc": {"generated": r.generated, "distinct": r.distinct, "wall_s": round(r.wall_s, 1), "invariant": "ChkOK"}}
    return CheckResult(coverage=cov, violations=list(ctx.viol.values()),
                       assumptions=["partial: exact expectations only for ring states (Clifford+T lattice circuits), stabiliser states and "
                                    "diagonal dyadic states (plus local Clifford+T rotations of them); entropies of generic states, "
                                    "fidelity of non-commuting mixed states and trace distance of generic mixed states are covered only by "
                                    "bridged eigenvalue formulas / bounds",
                                    "float comparison at 1e-8 (fidelity of density matrices 2e-6: square roots of eigenvalue noise) against "
                                    "exact ring / rational values evaluated in float64",
                                    "ln / sqrt of TLC's exact integers and rationals are applied in the harness"])
