"""C12 The decompose transform reaches the target gate set without changing the circuit.

REL + REPLAY.  spec/gen/DecompCfgGen.tla enumerates the configuration space (all subsets of a six-gate universe with /
without GlobalPhase, classified "universal enough"; all option tuples graph x num_work_wires x max_expansion x custom
decompositions x stopping condition) together with what spec/sys/DecompModel.tla promises for each (relation, TypeError,
gate-set clause).  The driver replays configurations x generated circuits (<= 4 operators over the reference gate table,
Adjoint / Pow / Controlled forms, QFT / MultiRZ / PauliRot / MultiControlledX) x gate sets (universe subsets, the predefined
sets, seeded supersets) into the real qp.transforms.decompose and records Decompose(in, gate set, options, out | error):
  * Trace_Decompose.tla decides the discrete clauses (documented errors only, every operator of the result in the gate
    set / accepted by the stopping condition / left under the documented warning, measurements preserved) and the second
    clause GraphEstimate: the graph's resource estimate of the circuit equals, gate for gate, the counts of the circuit
    the transform produced whenever every applied rule declares exact resources;
  * CircuitEq.tla recomputes U(in) from the reference table and U(out) exactly in Z[zeta][1/2] and decides equality
    INCLUDING global phase (on the clean-work-wire columns when work wires are allocated).  Outputs with off-lattice
    angles are compared numerically with TLC's exact U(in) (bridge).
The same generator enumerates the call shapes of the device-side entry point devices.preprocess.decompose (kind "dev": graph x
skip_initial_state_prep x leading BasisState / StatePrep accepted or rejected by the stopping condition x remaining operators
none / all accepted / some rejected); the driver instantiates each shape with seeded tapes, Trace_Decompose.tla (VDev) decides that
every operator of the result is accepted by the stopping condition except an exempted leading state preparation (or a documented
error is raised), and CircuitEq.tla decides the prepared state U|0..0> exactly against a reference preparation circuit."""
import json
import random
import re
import sys
import warnings

import numpy as np

import pennylane as qp
from pennylane.decomposition import gate_sets, null_decomp
from pennylane.decomposition.resources import abstractify

from .. import bridge, decomp, lib, rel
from ..codec import ARITY, OffLattice, decode_gate, encode_op, rec, wire_positions
from ..lib import CheckResult, Violation

MG = 5                      # generator level: theta = a*pi/8; inputs are multiples of pi/2 (a = 4k)
BRIDGE_TOL = 1e-7
ANG = [4, 12, 20, 28, 8, 24]        # pi/2, 3pi/2, 5pi/2, 7pi/2, pi, 3pi
FIX1 = ["PauliX", "PauliY", "PauliZ", "Hadamard", "S", "T", "SX"]
ROT1 = ["RX", "RY", "RZ", "PhaseShift", "U1"]
FIX2 = ["CNOT", "CY", "CZ", "CH", "SWAP", "ISWAP", "SISWAP", "ECR"]
ROT2 = ["CRX", "CRY", "CRZ", "ControlledPhaseShift", "CPhaseShift00", "CPhaseShift01", "CPhaseShift10", "IsingXX", "IsingYY", "IsingZZ",
        "IsingXY", "PSWAP", "SingleExcitation", "SingleExcitationPlus", "SingleExcitationMinus", "FermionicSWAP"]
FIX3 = ["Toffoli", "CCZ", "CSWAP"]
EXTRA = ["Toffoli", "CRX", "CRZ", "SWAP", "PhaseShift", "T", "S", "Adjoint(T)", "Adjoint(S)", "IsingXX", "MultiRZ", "PauliRot",
         "ControlledPhaseShift", "CH", "SX", "PauliX", "PauliZ", "CY", "Rot", "U3", "MultiControlledX", "CCZ", "Identity"]


# ----------------------------------------------------------------------------------------- custom rules (docs examples)
@qp.register_resources({qp.CNOT: 2, qp.RX: 1})
def _isingxx_decomp(phi, wires, **__):
    qp.CNOT(wires=wires)
    qp.RX(phi, wires=[wires[0]])
    qp.CNOT(wires=wires)


@qp.register_resources({qp.H: 2, qp.CZ: 1})
def _my_cnot1(wires, **__):
    qp.H(wires=wires[1])
    qp.CZ(wires=wires)
    qp.H(wires=wires[1])


@qp.register_resources({qp.RY: 2, qp.CZ: 1, qp.Z: 2})
def _my_cnot2(wires, **__):
    # H = RY(pi/2) Z as matrices, i.e. Z first (the variant printed in the transform's docstring applies RY first and is
    # CNOT only up to a Z on the control wire); RULE_SELFCHECK below lets TLC confirm every custom rule before it is used
    qp.Z(wires[1])
    qp.RY(np.pi / 2, wires[1])
    qp.CZ(wires=wires)
    qp.Z(wires[1])
    qp.RY(np.pi / 2, wires[1])


def rule_selfcheck_cases():
    """CircuitEq cases [operator] vs [what the custom rule emits]: the rules handed to fixed_decomps / alt_decomps must be exact"""
    out = []
    for op, rule in ((qp.CNOT([0, 1]), _my_cnot1), (qp.CNOT([0, 1]), _my_cnot2), (qp.IsingXX(np.pi / 2, [0, 1]), _isingxx_decomp),
                     (qp.IsingXX(3 * np.pi / 2, [1, 0]), _isingxx_decomp)):
        with qp.queuing.AnnotatedQueue() as q:
            rule(*op.data, wires=op.wires)
        wpos = wire_positions([0, 1])
        out.append({"n": 2, "a": [encode_op(op, wpos, 4)], "cs": [], "bs": [{"b": [encode_op(o, wpos, 4) for o in q.queue], "rel": "exact", "perm": []}]})
    return out


def custom_kwargs(kind):
    if kind == "fixed":
        return {"fixed_decomps": {qp.IsingXX: _isingxx_decomp, qp.CNOT: _my_cnot1}}
    if kind == "alt":
        return {"alt_decomps": {qp.CNOT: [_my_cnot1, _my_cnot2]}, "fixed_decomps": {qp.IsingXX: _isingxx_decomp}}
    if kind == "nullphase":
        return {"fixed_decomps": {qp.GlobalPhase: null_decomp}}
    return {}


# ----------------------------------------------------------------------------------------- generators
def configs():
    wd = lib.workdir("C12", "cfggen")
    r = lib.run_tlc("DecompCfgGen", lib.cfg(invariants=["UniversalOK", "OptOK", "DevOK"]), wd)
    lib.require_ok(r, "DecompCfgGen")
    sets = [j for j in r.json_lines if j["kind"] == "set"]
    opts = [j for j in r.json_lines if j["kind"] == "opt"]
    devs = sorted((j for j in r.json_lines if j["kind"] == "dev"), key=lambda j: json.dumps(j, sort_keys=True))
    if len(sets) != 128 or len(opts) != 2 * 4 * 3 * 4 * 2 or len(devs) != 2 * 2 * (1 + 2 * 2) * 3:
        raise lib.MachineryError(f"DecompCfgGen emitted {len(sets)} sets / {len(opts)} option tuples / {len(devs)} device call shapes")
    return sets, opts, devs, r


def random_op(rng, n, custom):
    """one gate record at level MG on wires 1..n"""
    ang = lambda: rng.choice(ANG)
    kinds = ["g1", "r1", "g2", "r2", "r2", "g3", "p3", "mrz", "prot", "mcx", "gph", "adj", "pow", "ctrl", "ctrl", "qft"]
    if custom in ("fixed", "alt"):
        kinds += ["cust"] * 8
    while True:
        k = rng.choice(kinds)
        if k == "cust" and n >= 2:
            g = rng.choice(["CNOT", "IsingXX", "CNOT", "Toffoli" if n >= 3 else "CNOT"])
            return rec(g, rng.sample(range(1, n + 1), ARITY[g]), [ang()] if g == "IsingXX" else [])
        if k == "g1":
            return rec(rng.choice(FIX1), [rng.randint(1, n)])
        if k == "r1":
            return rec(rng.choice(ROT1), [rng.randint(1, n)], [ang()])
        if k == "gph":
            return rec("GlobalPhase", [], [ang()])
        if k == "p3":
            g = rng.choice(["Rot", "U3", "U2", "CRot"])
            if ARITY[g] <= n:
                return rec(g, rng.sample(range(1, n + 1), ARITY[g]), [ang() for _ in range(2 if g == "U2" else 3)])
        if k == "g2" and n >= 2:
            return rec(rng.choice(FIX2), rng.sample(range(1, n + 1), 2))
        if k == "r2" and n >= 2:
            return rec(rng.choice(ROT2), rng.sample(range(1, n + 1), 2), [ang()])
        if k == "g3" and n >= 3:
            return rec(rng.choice(FIX3), rng.sample(range(1, n + 1), 3))
        if k == "mrz":
            q = rng.randint(1, min(n, 3))
            return rec("MultiRZ", rng.sample(range(1, n + 1), q), [ang()])
        if k == "prot":
            q = rng.randint(1, min(n, 3))
            return rec("PauliRot", rng.sample(range(1, n + 1), q), [ang()], [rng.randint(0, 3) for _ in range(q)])
        if k == "mcx" and n >= 3:
            q = rng.randint(2, min(n - 1, 3))
            return rec("MultiControlledX", rng.sample(range(1, n + 1), q + 1), [], [rng.randint(0, 1) for _ in range(q)])
        if k == "qft" and n >= 2:
            return rec("QFT", rng.sample(range(1, n + 1), 2))
        if k == "adj":
            g = random_op(rng, n, None)
            if not g["mods"] and g["g"] != "GlobalPhase":
                g["mods"] = [{"t": "adj"}]
                return g
        if k == "pow":
            g = random_op(rng, n, None)
            if not g["mods"] and g["g"] not in ("GlobalPhase", "QFT") and len(g["w"]) <= 2:
                g["mods"] = [{"t": "pow", "z": rng.choice([2, 3, -1, -2, 0, 1])}]
                return g
        if k == "ctrl" and n >= 2:
            g = random_op(rng, n - 1, None)
            if g["mods"] or g["g"] in ("GlobalPhase", "QFT", "MultiControlledX") or len(g["w"]) > 2:
                continue
            free = [w for w in range(1, n + 1) if w not in g["w"]]
            q = rng.randint(1, min(len(free), 2))
            cw = rng.sample(free, q)
            g["w"] = cw + g["w"]
            g["mods"] = [{"t": "ctrl", "cv": [rng.randint(0, 1) for _ in range(q)]}]
            return g


PREDEF_NAMES = {
    # the documented contents of the predefined sets (docstrings of pennylane/decomposition/gate_sets.py), canonical names
    "CLIFFORD_T": ["PauliX", "PauliY", "PauliZ", "Hadamard", "S", "SX", "T", "CNOT", "CY", "CZ", "SWAP", "ISWAP", "Identity", "GlobalPhase",
                   "MidMeasure"] + [f"Adjoint({g})" for g in ["PauliX", "PauliY", "PauliZ", "Hadamard", "S", "SX", "T", "CNOT", "CY", "CZ", "SWAP", "ISWAP"]],
    "ROTATIONS_PLUS_CNOT": ["RX", "RY", "RZ", "CNOT", "Identity", "GlobalPhase", "MidMeasure"],
    "PYZX": ["PauliZ", "PauliX", "PauliY", "Hadamard", "RX", "RY", "RZ", "U2", "U3", "S", "T", "SX", "SWAP", "CNOT", "CY", "CZ", "CRX", "CRY",
             "CRZ", "ControlledPhaseShift", "CSWAP", "Toffoli", "CCZ"],
    "MBQC_GATES": ["CNOT", "Hadamard", "S", "RotXZX", "RZ", "PauliX", "PauliY", "PauliZ", "Identity", "GlobalPhase", "MidMeasure"],
}
PREDEF_NAMES["CLIFFORD_T_PLUS_RZ"] = PREDEF_NAMES["CLIFFORD_T"] + ["RZ"]


class Recorder:
    """records (does not alter) the graph solution built by the transform and the rules it hands out"""

    def __init__(self):
        self.mod = sys.modules["pennylane.transforms.decompose"]
        self.sol_cls = self.mod.DecompGraphSolution
        self.solution, self.rules = None, []

    def __enter__(self):
        self._orig_build = self.mod._construct_and_solve_decomp_graph
        self._orig_dec = self.sol_cls.decomposition
        rec_ = self

        def build(*a, **k):
            s = rec_._orig_build(*a, **k)
            rec_.solution = s
            return s

        def dec(self_, op, num_work_wires=0):
            r = rec_._orig_dec(self_, op, num_work_wires)
            rec_.rules.append(r)
            return r
        self.mod._construct_and_solve_decomp_graph = build
        self.sol_cls.decomposition = dec
        return self

    def __exit__(self, *exc):
        self.mod._construct_and_solve_decomp_graph = self._orig_build
        self.sol_cls.decomposition = self._orig_dec
        return False


def _name(o):
    """name under which an operator of the result is looked up in the gate set: a classically controlled operator counts
    as its base (the transform decomposes the base), a mid-circuit measurement is the documented 'MidMeasure' entry"""
    if type(o).__name__ == "Conditional":
        return _name(o.base)
    if type(o).__name__.startswith("MidMeasure"):
        return "MidMeasure"
    return o.name


def _counts(ops):
    cnt = {}
    for o in ops:
        if o.name in ("Allocate", "Deallocate"):
            continue
        k = abstractify(o)
        cnt[k] = cnt.get(k, 0) + 1
    return cnt


def apply_case(case):
    """run the real transform; -> observation dict"""
    c = case["cfg"]
    ops = [decode_gate(g, MG) for g in case["circ"]]
    n = case["n"]
    mps = [qp.expval(qp.Z(0)), qp.probs(wires=list(range(n)))] if case["meas"] else [qp.expval(qp.Z(0) @ qp.X(n - 1))]
    tape = qp.tape.QuantumScript(ops, mps)
    kw = dict(custom_kwargs(c["custom"]))
    kw["num_work_wires"] = None if c["ww"] < 0 else c["ww"]
    if c["mx"] >= 0:
        kw["max_expansion"] = c["mx"]
    stop = (lambda op: len(op.wires) <= c["stopk"]) if c["stopk"] else None
    if stop:
        kw["stopping_condition"] = stop
    obs = {"err": "", "errmsg": "", "out": None, "warned": [], "graphwarn": False, "est": None, "tape": tape}
    (qp.decomposition.enable_graph if c["graph"] else qp.decomposition.disable_graph)()
    try:
        with warnings.catch_warnings(record=True) as wl, Recorder() as rc:
            warnings.simplefilter("always")
            try:
                (out,), _ = qp.transforms.decompose(tape, gate_set=case["gs_arg"], **kw)
                obs["out"] = out
            except Exception as e:  # classified by the trace spec
                obs["err"], obs["errmsg"] = type(e).__name__, str(e)[:300]
                if type(e) is RuntimeError and str(e).startswith("Maximum recursion depth reached"):
                    # PennyLane re-raises the interpreter's RecursionError (itself a RuntimeError) under this message when the
                    # gate set cannot be reached: the same recursion-limit decomposition failure as in the legacy path
                    obs["err"] = "RecursionError"
        for w in wl:
            msg = str(w.message)
            if w.category.__name__ == "DecompositionWarning":
                obs["graphwarn"] = True
            m = re.match(r"Operator (\S+) does not define a decomposition", msg)
            if m:
                obs["warned"].append(m.group(1))
            if "GlobalPhase is not assumed to have a decomposition" in msg:
                obs["warned"].append("GlobalPhase")
        obs["warned"] = sorted(set(obs["warned"]))
        # second clause: the graph's estimate for the circuit vs what was applied
        sol = rc.solution
        if obs["out"] is not None and sol is not None and c["mx"] < 0 and not c["stopk"] and not obs["graphwarn"]:
            names = set(case["gs_names"])
            accept = lambda o: o.name in names or (stop is not None and stop(o))
            try:
                todo = [o for o in ops if not accept(o)]
                if todo and all(sol.is_solved_for(o, sol.num_work_wires) for o in todo):
                    est = {}
                    for o in ops:
                        part = {abstractify(o): 1} if accept(o) else sol.resource_estimate(o, sol.num_work_wires).gate_counts
                        for k, v in part.items():
                            est[k] = est.get(k, 0) + int(v)
                    obs["est"] = (est, _counts(obs["out"].operations), all(bool(r.exact_resources) for r in rc.rules), len(rc.rules),
                                  sorted({r.name for r in rc.rules if hasattr(r, "name")}))
            except Exception as e:
                obs["est_error"] = f"{type(e).__name__}: {e}"
    finally:
        qp.decomposition.disable_graph()
    return obs


def gen_cases(tier, seed, sets, opts):
    rng = random.Random(1200 + seed)
    ncases = 300 if tier == "quick" else 2000
    uni = [s for s in sets if s["universal"]]
    nonuni = [s for s in sets if not s["universal"] and len(s["gs"]) >= 2]
    predef = list(PREDEF_NAMES)
    cases = []
    opts_valid = [o for o in opts if not o["typeerror"]]
    opts_te = [o for o in opts if o["typeerror"]]
    for i in range(ncases):
        graph = bool(i % 2)
        if i % 40 == 39:
            o = rng.choice(opts_te)
        else:
            cand = [x for x in opts_valid if x["graph"] == graph]
            o = cand[(i * 7 + rng.randrange(3)) % len(cand)]
            if graph and o["custom"] != "none" and rng.random() < 0.4:      # custom rules: a third of the graph cases
                o = rng.choice([x for x in cand if x["custom"] == "none"])
            if o["mx"] >= 0 and rng.random() < 0.6:                         # most weight on unbounded expansion
                o = rng.choice([x for x in cand if x["mx"] < 0 and x["custom"] == o["custom"]])
            if o["stopk"] and rng.random() < 0.5:
                o = rng.choice([x for x in cand if x["mx"] == o["mx"] and x["custom"] == o["custom"] and not x["stopk"]])
        r = rng.random()
        if o["custom"] in ("fixed", "alt"):
            # gate sets without CNOT so that the custom CNOT rules matter
            cand = [s for s in uni if "CNOT" not in s["gs"]]
            s = rng.choice(cand)
            tag, names = "U6:" + "+".join(s["gs"]), list(s["gs"])
            arg = set(names)
        elif r < 0.45:
            s = rng.choice(uni)
            tag, names = "U6:" + "+".join(s["gs"]), list(s["gs"])
            arg = set(names)
        elif r < 0.55:
            s = rng.choice(nonuni)
            tag, names = "U6:" + "+".join(s["gs"]), list(s["gs"])
            arg = set(names)
        elif r < 0.8:
            nm = rng.choice(predef)
            tag, names, arg = nm, PREDEF_NAMES[nm], getattr(gate_sets, nm)
        elif r < 0.95:
            s = rng.choice(uni)
            names = list(s["gs"]) + rng.sample(EXTRA, rng.randint(1, 5))
            tag, arg = "U6+:" + "+".join(names), (set(names) if rng.random() < 0.7 else {k: rng.choice([1.0, 0.5, 3.0, 10.0]) for k in names})
        else:
            if o["graph"]:
                nm = "ROTATIONS_PLUS_CNOT"
                tag, names, arg = nm, PREDEF_NAMES[nm], getattr(gate_sets, nm)
            else:
                tag, names, arg = "None(ALL_OPS)", list(qp.ops.__all__), None
        if isinstance(arg, dict) and not o["graph"]:
            arg = set(arg)                   # weighted gate sets are "only available" with the graph system
        n = rng.choice([2, 3, 3, 4, 4])
        L = rng.randint(1, 4)
        circ = [random_op(rng, n, o["custom"]) for _ in range(L)]
        if o["graph"] and o["ww"] != 0 and o["mx"] < 0 and rng.random() < 0.35:      # operators whose rules can use work wires
            n = 4
            q = rng.choice([2, 3, 3])
            ws = rng.sample(range(1, n + 1), q + 1)
            circ = circ[:2] + [rec("MultiControlledX", ws, [], [rng.randint(0, 1) for _ in range(q)]) if rng.random() < 0.6 else
                               dict(rec(rng.choice(["RX", "RZ", "PhaseShift", "Hadamard", "S"]), ws, []), mods=[{"t": "ctrl", "cv": [1] * q}])]
            if circ[-1]["g"] in ("RX", "RZ", "PhaseShift"):
                circ[-1]["p"] = [rng.choice(ANG)]
            circ = [g for g in circ if all(w <= n for w in g["w"])]
        if o["custom"] == "nullphase" and rng.random() < 0.7:
            circ.append(rec(rng.choice(["T", "S", "Hadamard"]), [rng.randint(1, n)]))
        cfg = {"graph": bool(o["graph"]), "gs": names, "ww": o["ww"], "mx": o["mx"], "custom": o["custom"], "stopk": o["stopk"]}
        cases.append({"cfg": cfg, "rel": o["rel"], "gs_arg": arg, "gs_names": names, "gs_tag": tag, "n": n, "circ": circ,
                      "meas": rng.random() < 0.5})
    return cases


def shaped_cases(opts):
    """documentation examples and option-specific families that the seeded sample may miss"""
    def opt(graph, custom="none", ww=0, mx=-1, stopk=0):
        return next(o for o in opts if (o["graph"], o["custom"], o["ww"], o["mx"], o["stopk"]) == (graph, custom, ww, mx, stopk))
    c2 = lambda g, p=(): dict(rec(g, [1, 2, 3], list(p)), mods=[{"t": "ctrl", "cv": [1, 1]}])
    fam = []
    rot = PREDEF_NAMES["ROTATIONS_PLUS_CNOT"]
    # GlobalPhase mapped to the null decomposition (the remedy the transform's own warning proposes): phases of
    # controlled operators are relative phases and must survive
    for circ in ([rec("T", [1])], [rec("CRZ", [1, 2], [4])], [c2("RZ", [4])], [c2("S")], [c2("PhaseShift", [12])],
                 [dict(rec("GlobalPhase", [1, 2], [4]), mods=[{"t": "ctrl", "cv": [1, 1]}])],
                 [dict(rec("SISWAP", [1, 2, 3]), mods=[{"t": "ctrl", "cv": [1]}])], [rec("Toffoli", [1, 2, 3]), rec("Hadamard", [1])]):
        fam.append((opt(True, "nullphase"), "ROTATIONS_PLUS_CNOT", rot, gate_sets.ROTATIONS_PLUS_CNOT, 3, circ))
    # examples of the transform's docstring
    fam.append((opt(False), "doc:CNOT+RX", ["CNOT", "RX"], {qp.CNOT, qp.RX}, 2, [rec("IsingXX", [1, 2], [4])]))
    for g in (False, True):
        fam.append((opt(g), "doc:Toffoli+RX+RZ+GlobalPhase", ["Toffoli", "RX", "RZ", "GlobalPhase"], {qp.Toffoli, "RX", "RZ", "GlobalPhase"}, 3,
                    [rec("Hadamard", [1]), rec("Toffoli", [1, 2, 3])]))
        fam.append((opt(g, stopk=2), "doc:H+T+CNOT+GlobalPhase", ["Hadamard", "T", "CNOT", "GlobalPhase"], {"H", "T", "CNOT", "GlobalPhase"}, 3,
                    [rec("Hadamard", [1]), rec("Toffoli", [1, 2, 3])]))
        fam.append((opt(g), "doc:RX+RY+RZ+CZ+CNOT", ["RX", "RY", "RZ", "CZ", "CNOT"], {"RX", "RY", "RZ", "CZ", "CNOT"}, 2, [rec("CRX", [1, 2], [4])]))
        fam.append((opt(g, mx=1), "ROTATIONS_PLUS_CNOT", rot, gate_sets.ROTATIONS_PLUS_CNOT, 3, [rec("QFT", [1, 2]), rec("Toffoli", [3, 1, 2])]))
    w = {qp.Toffoli: 1.23, qp.RX: 4.56, qp.CZ: 0.01, qp.H: 420, qp.CRZ: 100}
    w2 = {qp.Toffoli: 1.23, qp.RX: 4.56, qp.CZ: 0.01, qp.H: 0.1, qp.CRZ: 0.1}
    for ww_ in (w, w2):
        fam.append((opt(True), "doc:weighted", ["Toffoli", "RX", "CZ", "Hadamard", "CRZ"], ww_, 3, [rec("CRX", [1, 2], [4]), rec("Toffoli", [1, 2, 3])]))
    fam.append((opt(True, "alt"), "doc:RX+RZ+CZ+GlobalPhase", ["RX", "RZ", "CZ", "GlobalPhase"], {"RX", "RZ", "CZ", "GlobalPhase"}, 2,
                [rec("CNOT", [1, 2]), rec("IsingXX", [1, 2], [4])]))
    # work wires
    for ww_ in (-1, 1, 2):
        fam.append((opt(True, ww=ww_), "Toffoli+CNOT+PauliX", ["Toffoli", "CNOT", "PauliX"], {"Toffoli", "CNOT", "X"}, 4,
                    [rec("MultiControlledX", [1, 2, 3, 4], [], [1, 1, 1])]))
    out = []
    for o, tag, names, arg, n, circ in fam:
        cfg = {"graph": bool(o["graph"]), "gs": list(names), "ww": o["ww"], "mx": o["mx"], "custom": o["custom"], "stopk": o["stopk"]}
        out.append({"cfg": cfg, "rel": o["rel"], "gs_arg": arg, "gs_names": list(names), "gs_tag": tag, "n": n, "circ": circ, "meas": True})
    return out


# ----------------------------------------------------------------------------------------- devices.preprocess.decompose
# state preparations with a reference preparation circuit over the reference gate table (local wire positions 1..k)
PREP_REF = [
    (1, [rec("Hadamard", [1])]),
    (1, [rec("Hadamard", [1]), rec("S", [1])]),
    (1, [rec("PauliX", [1]), rec("Hadamard", [1])]),
    (2, [rec("Hadamard", [1]), rec("CNOT", [1, 2])]),
    (2, [rec("Hadamard", [1]), rec("Hadamard", [2])]),
    (2, [rec("Hadamard", [1]), rec("S", [1]), rec("CNOT", [1, 2])]),
    (2, [rec("PauliX", [2]), rec("Hadamard", [1]), rec("CNOT", [1, 2])]),
]


def dev_cases(tier, seed, sets, devs):
    """instantiate every TLC-enumerated call shape of devices.preprocess.decompose with seeded tapes"""
    rng = random.Random(1250 + seed)
    reps = 2 if tier == "quick" else 10
    uni = [s for s in sets if s["universal"]]
    out = []
    for d in devs:
        for _ in range(reps):
            r = rng.random()
            if r < 0.25:
                tag, names = "ROTATIONS_PLUS_CNOT", ["RX", "RY", "RZ", "CNOT", "GlobalPhase"]
            else:
                s = rng.choice([x for x in uni if x["gp"] == (r < 0.9)])
                tag, names = "U6:" + "+".join(s["gs"]), list(s["gs"])
            n = rng.choice([2, 3, 3])
            lead = None
            if d["lead"] == "BasisState":
                k = rng.randint(1, n)
                ws = rng.sample(range(1, n + 1), k)
                bits = [rng.randint(0, 1) for _ in range(k)]
                if not any(bits):
                    bits[rng.randrange(k)] = 1
                lead = {"g": "BasisState", "w": ws, "bits": bits, "ref": [rec("PauliX", [w]) for w, b in zip(ws, bits) if b]}
            elif d["lead"] == "StatePrep":
                k, ref = rng.choice(PREP_REF)
                ws = rng.sample(range(1, n + 1), k)
                lead = {"g": "StatePrep", "w": ws, "local": ref, "ref": [dict(g, w=[ws[i - 1] for i in g["w"]]) for g in ref]}
            rest = []
            if d["rest"] == "accepted":
                pool = [x for x in names if x != "GlobalPhase"]
                for _ in range(rng.randint(1, 3)):
                    g = rng.choice(pool)
                    rest.append(rec(g, rng.sample(range(1, n + 1), ARITY[g]), [rng.choice(ANG)] if g in ROT1 else []))
            elif d["rest"] == "mixed":
                rest = [random_op(rng, n, None) for _ in range(rng.randint(1, 3))]
                if all(decode_gate(g, MG).name in names for g in rest):
                    g = rng.choice([x for x in ["S", "T", "SWAP", "PauliY", "CRZ", "IsingXX"] if x not in names])
                    rest.insert(rng.randint(0, len(rest)), rec(g, rng.sample(range(1, n + 1), ARITY[g]), [rng.choice(ANG)] if g in ROT2 else []))
            out.append({"d": {k_: d[k_] for k_ in ("graph", "skip", "lead", "leadok", "rest")}, "keep": d["keep"], "mustchange": d["mustchange"],
                        "names": names, "gs_tag": tag, "n": n, "lead": lead, "rest": rest, "meas": rng.random() < 0.5})
    return out


def apply_dev_case(case):
    """run the real devices.preprocess.decompose; -> observation dict"""
    from pennylane.devices.preprocess import decompose as dev_decompose
    d, n, lead = case["d"], case["n"], case["lead"]
    ops = []
    if lead is not None:
        wires = [w - 1 for w in lead["w"]]
        if lead["g"] == "BasisState":
            ops.append(qp.BasisState(np.array(lead["bits"]), wires=wires))
        else:
            vec = bridge.circuit_unitary(lead["local"], len(wires), MG)[:, 0]
            ops.append(qp.StatePrep(np.asarray(vec), wires=wires))
    ops += [decode_gate(g, MG) for g in case["rest"]]
    mps = [qp.expval(qp.Z(0)), qp.probs(wires=list(range(n)))] if case["meas"] else [qp.expval(qp.Z(0) @ qp.X(n - 1))]
    tape = qp.tape.QuantumScript(ops, mps)
    accepted = set(case["names"]) | ({d["lead"]} if d["leadok"] else set())
    stop = lambda op: op.name in accepted
    kw = {"target_gates": set(case["names"]), "num_work_wires": 0} if d["graph"] else {}
    obs = {"err": "", "errmsg": "", "out": None, "tape": tape, "stop": stop, "warned": []}
    (qp.decomposition.enable_graph if d["graph"] else qp.decomposition.disable_graph)()
    try:
        with warnings.catch_warnings(record=True) as wl:
            warnings.simplefilter("always")
            try:
                (out,), _ = dev_decompose(tape, stop, skip_initial_state_prep=d["skip"], **kw)
                obs["out"] = out
            except Exception as e:  # classified by the trace spec
                obs["err"], obs["errmsg"] = type(e).__name__, str(e)[:300]
        if any("GlobalPhase is not assumed to have a decomposition" in str(w.message) for w in wl):
            obs["warned"] = ["GlobalPhase"]
    finally:
        qp.decomposition.disable_graph()
    return obs


def _is_prep(o):
    return isinstance(o, qp.operation.StatePrepBase)


def _cols(n, nw):
    return [c for c in range(1 << n) if c % (1 << nw) == 0] if nw else []


def run(tier, seed):
    import time
    t0 = time.time()
    phase = {}
    sets, opts, devs, gres = configs()
    phase["cfggen"] = round(time.time() - t0, 1)
    cases = shaped_cases(opts) + gen_cases(tier, seed, sets, opts)
    viol, traces, tmeta = [], [], []
    ecases = {4: [], 5: []}
    emeta = {4: [], 5: []}
    keys = {}
    kid = lambda k: keys.setdefault(k, len(keys) + 1)
    st = {"calls": 0, "returned": 0, "errors": {}, "typeerror_confirmed": 0, "graph_on": 0, "graph_off": 0, "changed": 0, "with_work_wires": 0,
          "custom_rule_used": 0, "warn_path": 0, "graphwarn_path": 0, "estimate_events": 0, "estimate_exact": 0, "bounded_expansion": 0,
          "stopping_condition_used": 0, "skipped": {}, "model_drift": 0, "gate_set_kinds": {}, "universal_set_failed": 0}
    nontrivial = set()

    def skip(why):
        st["skipped"][why] = st["skipped"].get(why, 0) + 1
    for ci, case in enumerate(cases):
        c = case["cfg"]
        obs = apply_case(case)
        st["calls"] += 1
        st["graph_on" if c["graph"] else "graph_off"] += 1
        kind = case["gs_tag"].split(":")[0]
        st["gate_set_kinds"][kind] = st["gate_set_kinds"].get(kind, 0) + 1
        tape = obs["tape"]
        n = case["n"]
        replay = {"config": {k: v for k, v in c.items() if k != "gs"}, "gate_set": case["gs_tag"], "n": n, "circuit": case["circ"],
                  "ops": [repr(o) for o in tape.operations]}
        stop = (lambda op: len(op.wires) <= c["stopk"]) if c["stopk"] else (lambda op: False)
        out = obs["out"]
        t = {"kind": "decompose", "c": c, "rel": case["rel"], "err": obs["err"], "warned": obs["warned"], "graphwarn": obs["graphwarn"],
             "out": [{"name": _name(o), "stop": bool(stop(o))} for o in out.operations] if out is not None else [],
             "min": [repr(m) for m in tape.measurements], "mout": [repr(m) for m in out.measurements] if out is not None else
             [repr(m) for m in tape.measurements], "est": [], "act": [], "exact": False}
        traces.append(t)
        tmeta.append((replay, obs["errmsg"], [repr(o) for o in out.operations][:60] if out is not None else None))
        if obs["err"]:
            st["errors"][obs["err"]] = st["errors"].get(obs["err"], 0) + 1
            if obs["err"] == "TypeError" and not c["graph"] and c["custom"] != "none":
                st["typeerror_confirmed"] += 1
            elif case["gs_tag"].startswith("U6:") and any(s["universal"] and "U6:" + "+".join(s["gs"]) == case["gs_tag"] for s in sets):
                st["universal_set_failed"] += 1
            continue
        st["returned"] += 1
        if obs["warned"]:
            st["warn_path"] += 1
        if obs["graphwarn"]:
            st["graphwarn_path"] += 1
        if c["mx"] >= 0:
            st["bounded_expansion"] += 1
        if c["stopk"] and any(x["stop"] and x["name"] not in c["gs"] for x in t["out"]):
            st["stopping_condition_used"] += 1
        if [repr(o) for o in out.operations] != [repr(o) for o in tape.operations]:
            st["changed"] += 1
            nontrivial.add((case["gs_tag"], json.dumps(case["circ"], sort_keys=True), c["graph"], c["custom"], c["ww"], c["mx"], c["stopk"]))
        if "est_error" in obs:
            skip("estimate: " + obs["est_error"].split(":")[0])
        if obs["est"] is not None:
            est, act, exact, nrules, rnames = obs["est"]
            st["estimate_events"] += 1
            st["estimate_exact"] += bool(exact)
            if any(nm.startswith("_my_cnot") or nm.startswith("_isingxx") for nm in rnames):
                st["custom_rule_used"] += 1
            traces.append({"kind": "estimate", "c": c, "rel": "", "err": "", "warned": [], "graphwarn": False, "out": [], "min": [], "mout": [],
                           "est": [[kid(k), int(v)] for k, v in est.items()], "act": [[kid(k), int(v)] for k, v in act.items()],
                           "exact": bool(exact)})
            tmeta.append((replay, f"estimate { {repr(k): v for k, v in est.items()} } applied { {repr(k): v for k, v in act.items()} } "
                                  f"rules {rnames}", None))
        # peak number of simultaneously allocated work wires vs the budget (mechanism: evidence only)
        live = peak = 0
        for o in out.operations:
            if o.name == "Allocate":
                live += len(o.wires)
                peak = max(peak, live)
            elif o.name == "Deallocate":
                live -= len(o.wires)
        if peak:
            st["with_work_wires"] += 1
            if c["ww"] >= 0 and peak > c["ww"]:
                st["model_drift"] += 1
        # ---- unitary relation
        done = False
        for lv in (4, 5):
            wpos = wire_positions(list(range(n)))
            try:
                a = [encode_op(o, wpos, lv) for o in tape.operations]
            except (OffLattice, KeyError, AttributeError):
                continue
            a = [x for x in a if x is not None]
            try:
                recs, flt, info = decomp.flatten(list(out.operations), wpos, lv)
            except decomp.Skip as e:
                skip(" ".join(str(e).split(" ")[:3]))
                done = True
                break
            ntot = len(wpos)
            dyn = info.get("dyn", {})
            if any(not restored for _, restored in dyn.values()):
                skip("garbage work wires")
                done = True
                break
            nw = ntot - n
            zero_like = any(s_.endswith("zero") or s_ == "zero" for s_, _ in dyn.values())
            cs_ = _cols(ntot, nw) if (nw and zero_like) else []
            if ntot > (5 if tier == "quick" else 6):
                skip("too wide")
                done = True
                break
            cs = cs_
            if recs is not None:
                ecases[lv].append({"n": ntot, "a": a, "cs": cs, "bs": [{"b": recs, "rel": case["rel"], "perm": []}]})
                emeta[lv].append([replay, None, [repr(o) for o in out.operations][:60], case["rel"], cs, flt])
                done = True
                break
            if lv == 5:
                ecases[lv].append({"n": ntot, "a": a, "cs": cs, "bs": [{"b": [], "rel": "emit", "perm": []}]})
                emeta[lv].append([replay, flt, [repr(o) for o in out.operations][:60], case["rel"], cs, flt])
                done = True
        if not done:
            skip("input not encodable")
    phase["apply"] = round(time.time() - t0 - phase["cfggen"], 1)
    # ---- device-side entry point: every TLC-enumerated call shape, seeded instances
    st.update({"dev_calls": 0, "dev_returned": 0, "dev_errors": {}, "dev_lead_only_returned": 0, "dev_lead_only_decomposed": 0, "dev_prep_kept": 0, "dev_keep_drift": 0,
               "dev_unchanged": 0, "dev_state_cases": 0})
    for case in dev_cases(tier, seed, sets, devs):
        d, n = case["d"], case["n"]
        obs = apply_dev_case(case)
        st["dev_calls"] += 1
        tape, out, stop = obs["tape"], obs["out"], obs["stop"]
        replay = {"entry": "devices.preprocess.decompose", "config": dict(d, custom="none"), "gate_set": case["gs_tag"], "n": n,
                  "lead": case["lead"], "circuit": case["rest"], "ops": [repr(o) for o in tape.operations]}
        fp = lambda ops_: [{"name": _name(o), "stop": bool(stop(o)), "prep": _is_prep(o)} for o in ops_]
        traces.append({"kind": "dev", "d": d, "err": obs["err"], "warned": obs["warned"], "ins": fp(tape.operations), "out": fp(out.operations) if out is not None else [],
                       "min": [repr(m) for m in tape.measurements],
                       "mout": [repr(m) for m in (out if out is not None else tape).measurements]})
        tmeta.append((replay, obs["errmsg"], [repr(o) for o in out.operations][:60] if out is not None else None))
        if obs["err"]:
            st["dev_errors"][obs["err"]] = st["dev_errors"].get(obs["err"], 0) + 1
            continue
        st["dev_returned"] += 1
        st["dev_warn_path"] = st.get("dev_warn_path", 0) + bool(obs["warned"])
        oo = list(out.operations)
        same = [repr(o) for o in oo] == [repr(o) for o in tape.operations]
        st["dev_unchanged"] += same
        kept = bool(oo) and case["lead"] is not None and _is_prep(oo[0]) and qp.equal(oo[0], tape.operations[0])
        st["dev_prep_kept"] += kept
        if case["keep"] != kept:
            st["dev_keep_drift"] += 1          # mechanism (an accepted preparation may be decomposed all the same): evidence only
        if case["lead"] is not None and not d["skip"] and not d["leadok"] and d["rest"] != "mixed":
            st["dev_lead_only_returned"] += 1      # only the leading preparation needs decomposing, and the call returned
            st["dev_lead_only_decomposed"] += not same
        if not same:
            nontrivial.add((case["gs_tag"], json.dumps([case["lead"], case["rest"]], sort_keys=True), "dev", d["graph"], d["skip"], d["leadok"]))
        # ---- prepared state: reference preparation + reference table vs the result, on |0..0> when a preparation leads
        pre = list(case["lead"]["ref"]) if case["lead"] is not None else []
        body_in = list(tape.operations)[1 if case["lead"] is not None else 0:]
        body_out = oo[1:] if kept else oo
        if any(_is_prep(o) for o in body_out):
            skip("dev: state preparation left in the result")        # decided by the trace clause
            continue
        done = False
        for lv in (4, 5):
            wpos = wire_positions(list(range(n)))
            try:
                a = pre + [x for x in (encode_op(o, wpos, lv) for o in body_in) if x is not None]
            except (OffLattice, KeyError, AttributeError):
                continue
            try:
                recs, flt, info = decomp.flatten(body_out, wpos, lv)
            except decomp.Skip as e:
                skip("dev: " + " ".join(str(e).split(" ")[:3]))
                done = True
                break
            if len(wpos) != n:
                skip("dev: work wires")
                done = True
                break
            cs = [0] if case["lead"] is not None else []
            if kept:
                recs, flt = (pre + recs if recs is not None else None), pre + flt
            if recs is not None:
                ecases[lv].append({"n": n, "a": a, "cs": cs, "bs": [{"b": recs, "rel": "exact", "perm": []}]})
                emeta[lv].append([replay, None, [repr(o) for o in oo][:60], "exact", cs, flt])
                st["dev_state_cases"] += 1
                done = True
                break
            if lv == 5:
                ecases[lv].append({"n": n, "a": a, "cs": cs, "bs": [{"b": [], "rel": "emit", "perm": []}]})
                emeta[lv].append([replay, flt, [repr(o) for o in oo][:60], "exact", cs, flt])
                st["dev_state_cases"] += 1
                done = True
        if not done:
            skip("dev: input not encodable")
    phase["apply_dev"] = round(time.time() - t0 - phase["cfggen"] - phase["apply"], 1)
    # ---- cost cap per ring level: one gate on a 2^n x cols block costs n-independent ring products ~ 2^n * cols; the products
    #      of the M=5 ring are four times dearer than M=4.  The cheapest cases stay exact, the rest of the batch is decided
    #      numerically against TLC's exact U(in) (counted as bridged)
    caps = {4: 700000, 5: 140000} if tier == "quick" else {4: 20000000, 5: 5000000}
    for lv in (4, 5):
        def cost(i):
            c_ = ecases[lv][i]
            return len(c_["bs"][0]["b"]) * (1 << c_["n"]) * (len(c_["cs"]) or (1 << c_["n"]))
        order = sorted((i for i in range(len(ecases[lv])) if ecases[lv][i]["bs"][0]["rel"] != "emit"), key=cost)
        acc = 0
        for i in order:
            acc += cost(i)
            if acc > caps[lv]:
                ecases[lv][i]["bs"] = [{"b": [], "rel": "emit", "perm": []}]
                emeta[lv][i][1] = emeta[lv][i][5]
                st["exact_demoted_to_bridge"] = st.get("exact_demoted_to_bridge", 0) + 1
    # ---- negative controls
    neg_t = []
    for i in range(0, len(traces), max(1, len(traces) // 20)):
        t = traces[i]
        if t["kind"] == "decompose" and not t["err"] and t["c"]["mx"] < 0 and not ((t["c"]["graph"] and t["graphwarn"])):
            neg_t.append(len(traces))
            traces.append(dict(t, out=t["out"] + [{"name": "NotAGate", "stop": False}]))
            tmeta.append(None)
        elif t["kind"] == "dev":
            continue
        elif t["kind"] == "estimate" and t["exact"] and t["act"]:
            neg_t.append(len(traces))
            traces.append(dict(t, act=[[t["act"][0][0], t["act"][0][1] + 1]] + t["act"][1:]))
            tmeta.append(None)
    ndev = [i for i, t in enumerate(traces) if t["kind"] == "dev" and not t["err"]]
    for i in ndev[::max(1, len(ndev) // 6)]:
        neg_t.append(len(traces))
        traces.append(dict(traces[i], out=traces[i]["out"] + [{"name": "NotAGate", "stop": False, "prep": False}]))
        tmeta.append(None)
    neg_e = {4: [], 5: []}
    for lv in (4, 5):
        base = len(ecases[lv])
        for i in range(0, base, max(1, base // 10)):
            cs_ = ecases[lv][i]
            if cs_["bs"][0]["rel"] == "emit":
                continue
            neg_e[lv].append(len(ecases[lv]))
            # on the single column |0..0> (device entry point) a T on wire 1 may act trivially: corrupt the phase instead
            bad = rec("GlobalPhase", [], [4]) if cs_["cs"] == [0] else rec("T", [1])
            ecases[lv].append(dict(cs_, bs=[dict(cs_["bs"][0], b=cs_["bs"][0]["b"] + [bad])]))
            emeta[lv].append(None)
    # ---- TLC: discrete clauses
    wd = lib.workdir("C12", "trace")
    (wd / "traces.json").write_text(json.dumps(traces))
    r = lib.run_tlc("Trace_Decompose", lib.cfg(constants={"NTRACES": len(traces)}), wd, env={"TRACE_FILE": str(wd / "traces.json")})
    lib.require_ok(r, "Trace_Decompose")
    phase["tlc_trace"] = round(r.wall_s, 1)
    tv = {t[1] - 1: t[2] for t in r.tuples if t[0] == "V"}
    if len(tv) != len(traces):
        raise lib.MachineryError(f"Trace_Decompose verdicts not total: {len(tv)} of {len(traces)}")
    samples = []
    for i, m in enumerate(tmeta):
        if m is None:
            continue
        v = tv[i]
        if v.startswith("bad-case"):
            raise lib.MachineryError(f"{v}: {traces[i].get('c', traces[i].get('d'))} {m[0]['ops']}")
        if v != "ok" and traces[i]["kind"] == "dev":
            d = traces[i]["d"]
            g = ("graph" if d["graph"] else "legacy") + (":skip-prep" if d["skip"] else ":no-skip-prep")
            viol.append(Violation(key=f"preprocess-decompose:{v}:{g}" + (f":{traces[i]['err']}" if traces[i]["err"] else ""),
                                  detail=f"devices.preprocess.decompose {v} ({g}) stopping condition accepts {m[0]['gate_set']}"
                                         f"{' + ' + d['lead'] if d['leadok'] else ''} shape {d} circuit {m[0]['ops']} -> "
                                         f"{m[2] if m[2] is not None else m[1]}", replay=m[0]))
            continue
        if v != "ok":
            g = "graph" if traces[i]["c"]["graph"] else "legacy"
            if m[0]["config"].get("custom") == "nullphase":
                g += ":nullphase"          # call-site discriminator (fixed_decomps={GlobalPhase: null_decomp})
            viol.append(Violation(key=f"decompose:{v}:{g}" + (f":{traces[i]['err']}" if traces[i]["err"] else ""),
                                  detail=f"{v} ({g}) gate set {m[0]['gate_set']} options {m[0]['config']} circuit {m[0]['ops']} -> "
                                         f"{m[2] if m[2] is not None else m[1]} {m[1] if m[2] is not None else ''} warned {traces[i]['warned']}",
                                  replay=m[0]))
    nneg_t = sum(1 for i in neg_t if tv[i] != "ok")
    # ---- the custom rules handed to fixed_decomps / alt_decomps are confirmed exact by TLC first (same batch)
    for sc in rule_selfcheck_cases():
        ecases[4].append(sc)
        emeta[4].append("SELF")
    # ---- TLC: exact unitaries
    n_exact = n_bridge = 0
    est_ = {"distinct": 0, "generated": 0}
    nneg_e = tot_neg_e = 0
    for lv in (4, 5):
        if not ecases[lv]:
            continue
        ev, emitted, s_ = rel.validate("C12", ecases[lv], lv, name=f"rel{lv}")
        phase[f"tlc_rel{lv}"] = round(s_["wall_s"], 1)
        est_["distinct"] += s_["distinct"]
        est_["generated"] += s_["generated"]
        tot_neg_e += len(neg_e[lv])
        nneg_e += sum(1 for i in neg_e[lv] if ev[(i, 0)] != "ok")
        for (ti, _), clause in ev.items():
            m = emeta[lv][ti]
            if m is None:
                continue
            if m == "SELF":
                if clause != "ok":
                    raise lib.MachineryError(f"a custom decomposition rule of the harness is not exact: {ecases[lv][ti]}")
                continue
            replay, flt, outs, relname, cs, _ = m
            g = ("graph" if replay["config"]["graph"] else "legacy") + (":nullphase" if replay["config"]["custom"] == "nullphase" else "")
            if replay.get("entry"):
                g = "preprocess:" + g
            if clause == "overflow":
                raise lib.MachineryError("ring overflow in CircuitEq")
            if flt is not None:
                n_bridge += 1
                Uexp = lib.ring_matrix_to_numpy(emitted[ti], lv)
                try:
                    Uout = bridge.circuit_unitary(flt, ecases[lv][ti]["n"], lv)
                except (KeyError, ValueError) as e:
                    skip(f"bridge {type(e).__name__}")
                    continue
                cols = cs or list(range(Uout.shape[1]))
                same = (bridge.equal_up_to_phase(Uout[:, cols], Uexp, tol=BRIDGE_TOL) if relname == "phase"
                        else np.allclose(Uout[:, cols], Uexp, atol=BRIDGE_TOL))
                if not same:
                    viol.append(Violation(key=f"decompose:not-equal(bridged):{g}", detail=f"U(out) != U(in) ({relname}) gate set {replay['gate_set']} "
                                          f"options {replay['config']} circuit {replay['ops']} -> {outs}", replay=replay))
                continue
            n_exact += 1
            if clause != "ok":
                viol.append(Violation(key=f"decompose:{clause}:{g}", detail=f"U(out) != U(in) ({relname}, TLC verdict {clause}) gate set "
                                      f"{replay['gate_set']} options {replay['config']} circuit {replay['ops']} -> {outs}",
                                      replay=dict(replay, a=ecases[lv][ti]["a"], b=ecases[lv][ti]["bs"][0]["b"], cs=cs)))
            elif len(samples) < 4 and outs and 3 <= len(outs) <= 14 and replay["gate_set"] not in {s["gate_set"] for s in samples}:
                samples.append({"gate_set": replay["gate_set"], "options": replay["config"], "input": replay["ops"], "output": outs,
                                "relation": relname, "verdict": "ok"})
    if not neg_t or not tot_neg_e or nneg_t != len(neg_t) or nneg_e != tot_neg_e:
        raise lib.MachineryError(f"negative controls rejected: trace {nneg_t}/{len(neg_t)}, unitary {nneg_e}/{tot_neg_e}")
    if st["returned"] < st["calls"] // 3 or st["changed"] < st["calls"] // 4 or not st["estimate_exact"] or not st["typeerror_confirmed"]:
        raise lib.MachineryError(f"vacuous run: {st}")
    if not st["dev_lead_only_returned"] or st["dev_returned"] < st["dev_calls"] // 3 or (not viol and not (st["dev_prep_kept"] and st["dev_state_cases"])):
        raise lib.MachineryError(f"vacuous run (device entry point): {st}")
    cov = {"states": gres.distinct + r.distinct + est_["distinct"], "transitions": gres.generated + r.generated + est_["generated"],
           "traces_validated_against_impl": len(traces) - len(neg_t), "evaluations": st["calls"] + st["dev_calls"], "distinct_nontrivial": len(nontrivial),
           "rule": "configurations enumerated by TLC (128 gate sets over the six-gate universe, 192 option tuples, 60 call shapes of "
                   "devices.preprocess.decompose) x the predefined gate sets x "
                   "seeded circuits of <= 4(+1) operators on 2-4 wires; non-trivial = distinct (gate set, circuit, options) whose output "
                   "differs from the input",
           "samples": samples, "exhaustive": False, "exact_by_tlc": n_exact, "bridged_float": n_bridge,
           "negative_controls_rejected": nneg_t + nneg_e, "resource_keys": len(keys), "phase_wall_s": phase, **st}
    return CheckResult(coverage=cov, violations=viol, assumptions=[
        "operator semantics = reference table Gates.tla (+ adjoint / power / controlled arithmetic); input angles are multiples of pi/2 so that "
        "emitted half / quarter angles stay on the lattice (M=4/5); other outputs are compared numerically (1e-7) with TLC's exact U(in)",
        "an operator left outside the gate set is accepted only under the documented warnings (no decomposition defined; graph unable to "
        "solve) or with a bounded max_expansion; RecursionError / DecompositionError / DecompositionUndefinedError count as decomposition errors",
        "devices.preprocess.decompose: BasisState / StatePrep = the reference preparation circuit (X on the set bits; H / S / CNOT circuits "
        "whose state TLC recomputes) applied to |0..0>, compared on that column only; the stopping condition is membership by name",
        "estimate clause: resource keys are the library's compressed representations of the produced operators; the estimate of a circuit is "
        "the sum over its operators (operators already accepted count as themselves)"])
