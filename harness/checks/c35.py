"""C35 Generated shift rules are exact for their frequency spectra  (partial: coefficients are irrational floats).

A rule {(c_j, s_j)} reproduces the n-th derivative of EVERY trigonometric polynomial with spectrum Omega at every point iff the
finitely many defining identities  sum_j c_j e^{i w s_j} = (i w)^n  hold for w in +-Omega u {0}  (product form for multi rules).

(G) ShiftRuleGen.tla enumerates every request (frequency set as rationals, default / user shifts on the lattice 4pi/2^M, order)
    within the bounds; TLC proves on the model that the documented period 2pi/gcd is a minimal common period and that folding
    by it keeps every phase, decides EXACTLY (ring determinant of the sine matrix) whether a first-order rule with those shifts
    exists at all, and emits the request with the expected period and the shifts an order-n iterate can contain.
(T) every request for which a rule exists is replayed into generate_shift_rule / generate_multi_shift_rule /
    frequencies_to_period; reported shifts that are lattice points go to Trace_ShiftRule.tla, which decides the discrete
    conjuncts (merged / sorted / folded shifts) and EMITS the exact phases e^{i w s_j} as ring elements; the driver forms
    sum_j c_j * phase in float64 and compares with (i w)^n.  Off-lattice rules (R = 3, non-commensurate, dense) are evaluated
    numerically (bridged).
(R) replay on real functions: circuits whose expectation value has a known spectrum (R gates sharing one argument, CRX-type
    gates, scaled arguments); TapeEval.tla gives the EXACT values at the lattice shifts, harness/deriv.py the EXACT first /
    second / mixed derivative (chain rule); rule(values) must equal the derivative.
"""
import json
import math
import random
import warnings
from fractions import Fraction

import numpy as np

import pennylane as qp
from pennylane.gradients import general_shift_rules as gsr

from .. import deriv, devsim, lib, tapeeval
from ..codec import rec
from ..lib import CheckResult, Violation

PID = "C35"
TOL = 1e-9            # identities (scaled by the size of the coefficients, capped at TOL_CAP)
TOL_CAP = 1e-6
TOL_REPLAY = 1e-8
LAT_TOL = 1e-10       # process_shifts rounds merged shifts to 10 decimals


def unit(M):
    return 4.0 * math.pi / (1 << M)


def pyfreq(f, as_float=False):
    p, q = f
    return float(p) / q if (q != 1 or as_float) else int(p)


def tla_freqsets(fs):
    return "{" + ", ".join("<<" + ", ".join(f"<<{p}, {q}>>" for p, q in f) + ">>" for f in fs) + "}"


def frs(fr):
    return "(" + ",".join(str(Fraction(p, q)) for p, q in fr) + ")"


def clear_caches():
    for f in (gsr.generate_shift_rule, gsr._get_shift_rule, gsr.frequencies_to_period):      # (1, 2) and (1.0, 2.0) are the same cache key
        if hasattr(f, "cache_clear"):
            f.cache_clear()


def call_rule(freqs, shifts, order):
    """-> (array | None, exception name, [warning texts])"""
    clear_caches()
    with warnings.catch_warnings(record=True) as ws:
        warnings.simplefilter("always")
        try:
            out = gsr.generate_shift_rule(tuple(freqs), None if shifts is None else tuple(shifts), order)
            arr = np.array(out, dtype=float)
            exc = ""
        except Exception as e:           # noqa: BLE001
            arr, exc = None, type(e).__name__ + ": " + str(e)[:80]
    return arr, exc, [str(w.message)[:60] for w in ws]


def call_multi(freqs, shifts, orders):
    clear_caches()
    with warnings.catch_warnings(record=True) as ws:
        warnings.simplefilter("always")
        try:
            out = gsr.generate_multi_shift_rule([tuple(f) for f in freqs], None if shifts is None else [None if s is None else tuple(s) for s in shifts], list(orders))
            arr, exc = np.array(out, dtype=float), ""
        except Exception as e:           # noqa: BLE001
            arr, exc = None, type(e).__name__ + ": " + str(e)[:80]
    return arr, exc, [str(w.message)[:60] for w in ws]


def lattice_rows(shift_cols, M):
    """float shift columns (T x P) -> integer rows, or None when a shift is off the lattice"""
    u = unit(M)
    a = np.round(shift_cols / u)
    if np.max(np.abs(shift_cols - a * u), initial=0.0) > LAT_TOL:
        return None
    return [[int(v) for v in r] for r in a]


def ident_error(coeffs, phases, target):
    return abs(complex(np.dot(coeffs, phases)) - target)


def numeric_identities(arr, freqs_per_par, orders):
    """max over w-tuples of |sum_j c_j prod_p e^{i w_p s_jp} - prod_p (i w_p)^{n_p}|, with the float shifts (bridged)"""
    c = arr[:, 0]
    worst, at = 0.0, None
    grids = [[0.0] + [float(w) for w in f] + [-float(w) for w in f] for f in freqs_per_par]
    import itertools
    for ws in itertools.product(*grids):
        ph = np.ones(len(c), dtype=complex)
        tgt = 1.0 + 0j
        for p, w in enumerate(ws):
            ph = ph * np.exp(1j * w * arr[:, 1 + p])
            tgt = tgt * (1j * w) ** orders[p]
        e = ident_error(c, ph, tgt)
        if e > worst:
            worst, at = e, ws
    return worst, at


def sine_cond(freqs, shifts):
    A = np.sin(np.outer(np.asarray(shifts, dtype=float), np.asarray(freqs, dtype=float)))
    try:
        return float(np.linalg.cond(A))
    except Exception:                    # noqa: BLE001
        return float("inf")


def default_shifts(freqs):
    R = len(freqs)
    return [(2 * mu - 1) * math.pi / (2 * R * min(freqs)) for mu in range(1, R + 1)]


def size_of(freqs, shifts):
    """sum |c| of the first-order rule (drives the float tolerance of iterated rules)"""
    arr, exc, _ = call_rule(freqs, shifts, 1)
    if arr is None or not np.all(np.isfinite(arr)):
        return float("inf")
    return float(np.sum(np.abs(arr[:, 0])))


ILL = 1e6             # sum|c| of a first-order rule beyond which the linear system counts as numerically singular
SHIFT_ROUNDING = 1e-10   # process_shifts rounds merged shifts to 10 decimals: error <= 1e-10 * w * sum|c| in an identity


def tol_for(sizes, orders, arr=None, freqs=None):
    """float tolerance of an identity: 1e-9 * prod (sum|c| of the first-order rule)^order + the documented shift rounding"""
    t = TOL
    for s, n in zip(sizes, orders):
        t *= max(1.0, s) ** n
    if not math.isfinite(t) or max(sizes) > ILL:
        return TOL_CAP
    if arr is not None:
        wmax = max([1.0] + [abs(float(w)) for f in freqs for w in f])
        t += SHIFT_ROUNDING * wmax * float(np.sum(np.abs(arr[:, 0])))
    return t


class Ctx:
    def __init__(self):
        self.viol, self.keys = [], set()
        self.counts = {}
        self.nontrivial, self.samples, self.replay_samples, self.drift = set(), [], [], []

    def inc(self, k, n=1):
        self.counts[k] = self.counts.get(k, 0) + n

    def violate(self, key, detail, replay=None):
        if key in self.keys:
            return
        self.keys.add(key)
        self.viol.append(Violation(key=key, detail=detail, replay=replay))


# ------------------------------------------------------------------------------------------------ (G)+(T)
FREQS_QUICK = [[(1, 1)], [(2, 1)], [(1, 2)], [(3, 1)], [(1, 1), (2, 1)], [(1, 2), (1, 1)], [(2, 1), (4, 1)], [(1, 1), (3, 1)], [(1, 2), (3, 2)],
               [(1, 4), (1, 2)], [(1, 1), (2, 1), (3, 1), (4, 1)], [(1, 2), (1, 1), (3, 2), (2, 1)], [(1, 1), (2, 1), (4, 1)],
               [(1, 1), (2, 1), (3, 1)], [(1, 1), (3, 1), (5, 1)], [(1, 3), (2, 3)], [(2, 1), (3, 1)]]
FREQS_MORE = [[(4, 1)], [(1, 4)], [(3, 2)], [(1, 1), (4, 1)], [(1, 1), (5, 1)], [(2, 1), (6, 1)], [(3, 1), (4, 1)], [(1, 2), (2, 1)], [(3, 2), (2, 1)],
              [(1, 1), (3, 1), (4, 1)], [(1, 2), (1, 1), (2, 1)], [(2, 1), (3, 1), (4, 1)], [(1, 1), (2, 1), (5, 1)], [(1, 1), (2, 1), (3, 1), (5, 1)],
              [(2, 1), (4, 1), (6, 1), (8, 1)], [(1, 1), (2, 1), (3, 1), (6, 1)], [(1, 4), (1, 2), (3, 4), (1, 1)]]
MULTI_QUICK = [([(1, 1)], [(1, 1)]), ([(1, 1)], [(1, 1), (2, 1)]), ([(1, 2), (1, 1)], [(1, 1)]), ([(1, 1), (2, 1)], [(1, 1), (2, 1)]),
               ([(2, 1)], [(1, 2)]), ([(1, 1), (2, 1), (3, 1), (4, 1)], [(1, 1)])]


def lattice_part(ctx, tier, rng, M):
    N = 1 << M
    u = unit(M)
    fsets = FREQS_QUICK + (FREQS_MORE if tier != "quick" else [])
    pool = "1..7" if tier == "quick" else "1..11"
    g = lib.run_tlc_mc("ShiftRuleGen", {"FreqSets": tla_freqsets(fsets), "ShiftPool": pool}, lib.workdir(PID, "gen"),
                       constants={"M": M, "MaxUserR": 3, "MaxOrder": 4 if tier == "quick" else 5},
                       invariants=["FreqsOK", "PeriodOK", "FoldOK", "DefaultInside"])
    if g.invariant_violated:
        raise lib.MachineryError(f"ShiftRuleGen: model invariant {g.invariant_violated} violated (spec error)")
    lib.require_ok(g, "ShiftRuleGen")
    reqs = g.json_lines
    if not reqs:
        raise lib.MachineryError("ShiftRuleGen emitted nothing")
    stats = {"states": g.distinct, "transitions": g.generated}
    user_det = [r for r in reqs if r["user"] and r["det"]]
    ctx.inc("requests_enumerated", len(reqs))
    ctx.inc("user_shift_sets_proved_singular_and_excluded", sum(1 for r in reqs if r["user"] and not r["det"]))
    ctx.inc("default_requests_proved_singular_by_tlc", sum(1 for r in reqs if not r["user"] and r["onlat"] and not r["det"]))
    # user requests are many: replay all default requests and a seeded sample of the determined user requests
    cap = 260 if tier == "quick" else 4000
    chosen = [r for r in reqs if not r["user"]] + (user_det if len(user_det) <= cap else rng.sample(user_det, cap))
    traces, meta = [], []            # trace records for TLC ; per record bookkeeping
    periods = {}
    for r in chosen:
        fr = [tuple(f) for f in r["fr"]]
        for as_float in ((False, True) if (not r["user"] and r["n"] <= 2) else (False,)):
            freqs = tuple(pyfreq(f, as_float) for f in fr)
            shifts = tuple(a * u for a in r["sh"]) if r["user"] else None
            # frequencies_to_period against the period TLC computed from the rationals
            pk = (freqs, as_float)
            if pk not in periods:
                try:
                    clear_caches()
                    T = float(gsr.frequencies_to_period(freqs))
                except Exception as e:        # noqa: BLE001
                    T = None
                    ctx.violate(f"period:raised:fr={frs(fr)}", f"frequencies_to_period({freqs}) raised {type(e).__name__}: {e}", {"freqs": freqs})
                periods[pk] = T
                exp = r["per"][0] / r["per"][1] * u
                ctx.inc("periods_compared")
                if T is not None and abs(T - exp) > 1e-12 * exp:
                    if any(100000 % q for (_, q) in fr):
                        # documented rounding of non-integral frequencies to 5 decimals: such a frequency is not representable, the returned
                        # period is that of the rounded frequencies (evidence only; the rule itself is still judged by its identities)
                        ctx.inc("period_of_frequencies_beyond_5_decimals_differs")
                    else:
                        ctx.violate(f"period:wrong:fr={frs(fr)}{':float' if as_float else ''}",
                                    f"frequencies_to_period({freqs}) = {T!r}, documented 2pi/gcd = {exp!r} (TLC: {r['per'][0]}/{r['per'][1]} lattice units of 4pi/{N})",
                                    {"freqs": freqs})
            arr, exc, warns = call_rule(freqs, shifts, r["n"])
            ctx.inc("rule_calls")
            tag = f"{'user' if r['user'] else 'default'}:fr={frs(fr)}:n={r['n']}" + (f":sh={r['sh']}" if r["user"] else "") + (":float" if as_float else "")
            replay = {"frequencies": freqs, "shifts": shifts, "order": r["n"], "lattice_unit": f"4pi/{N}"}
            singular_default = (not r["user"]) and r["onlat"] and not r["det"]
            if arr is None:
                if singular_default:
                    ctx.inc("default_singular_rejected_by_exception")
                else:
                    ctx.violate(f"raised:{tag}", f"generate_shift_rule{(freqs, shifts, r['n'])} raised {exc}", replay)
                continue
            if arr.ndim != 2 or arr.shape[1] != 2 or not np.all(np.isfinite(arr)):
                ctx.violate(f"malformed:{tag}", f"generate_shift_rule{(freqs, shifts, r['n'])} returned {arr!r}", replay)
                continue
            sz = size_of(freqs, shifts)
            tol = tol_for([sz], [r["n"]], arr, [freqs])
            err, at = numeric_identities(arr, [freqs], [r["n"]])
            ctx.inc("rules_evaluated_numerically")
            rows = lattice_rows(arr[:, 1:], M)
            info = {"tag": tag, "fr": fr, "req": r, "arr": arr, "tol": tol, "warns": warns, "replay": replay, "num_err": err, "num_at": at,
                    "singular_default": singular_default, "orders": [r["n"]], "freqs": [freqs], "ill": sz > ILL, "user": bool(r["user"])}
            if not r["user"] and not r["onlat"]:
                cond = sine_cond(freqs, default_shifts(freqs))
                info["numerically_singular"] = cond if cond > 1e10 else None
            if rows is None or not r["onlat"]:
                ctx.inc("offlattice_rules_bridged")
                judge(ctx, info, err, f"w={at}", exact=False)
                continue
            traces.append({"pars": [{"fr": [list(f) for f in fr], "n": r["n"], "user": r["user"], "ush": list(r["sh"]) if r["user"] else []}], "rows": rows})
            meta.append(info)
    # multi-parameter rules
    for (fa, fb) in MULTI_QUICK:
        for orders in ([1, 1], [2, 1], [1, 2], [2, 2]) if tier == "quick" else ([1, 1], [2, 1], [1, 2], [2, 2], [3, 1], [1, 3], [3, 2]):
            for user in (0, 1):
                sh = None
                ush = [[], []]
                if user:
                    cands = [[r for r in user_det if [tuple(f) for f in r["fr"]] == list(fx) and r["n"] == 1] for fx in (fa, fb)]
                    if not cands[0] or not cands[1]:
                        continue
                    pick = [rng.choice(cands[0]), rng.choice(cands[1])]
                    ush = [list(p["sh"]) for p in pick]
                    sh = [tuple(a * u for a in s) for s in ush]
                freqs = [tuple(pyfreq(f) for f in fa), tuple(pyfreq(f) for f in fb)]
                arr, exc, warns = call_multi(freqs, sh, orders)
                ctx.inc("multi_rule_calls")
                tag = f"multi:{'user' if user else 'default'}:fr={frs(fa)}x{frs(fb)}:n={orders}" + (f":sh={ush}" if user else "")
                replay = {"frequencies": freqs, "shifts": sh, "orders": orders, "lattice_unit": f"4pi/{N}"}
                if arr is None or arr.ndim != 2 or arr.shape[1] != 3 or not np.all(np.isfinite(arr)):
                    ctx.violate(f"raised:{tag}", f"generate_multi_shift_rule({freqs}, {sh}, {orders}) -> {exc or arr!r}", replay)
                    continue
                szs = [size_of(freqs[0], sh[0] if sh else None), size_of(freqs[1], sh[1] if sh else None)]
                tol = tol_for(szs, orders, arr, freqs)
                err, at = numeric_identities(arr, freqs, orders)
                rows = lattice_rows(arr[:, 1:], M)
                info = {"tag": tag, "fr": [fa, fb], "arr": arr, "tol": tol, "warns": warns, "replay": replay, "num_err": err, "num_at": at,
                        "singular_default": False, "orders": orders, "freqs": freqs, "req": None, "ill": max(szs) > ILL, "user": bool(user)}
                if rows is None:
                    ctx.inc("offlattice_rules_bridged")
                    judge(ctx, info, err, f"w={at}", exact=False)
                    continue
                traces.append({"pars": [{"fr": [list(f) for f in fx], "n": n, "user": user, "ush": us} for fx, n, us in zip((fa, fb), orders, ush)], "rows": rows})
                meta.append(info)
    # hand-written controls (not derived from implementation output): correct rule must pass, corruptions must be rejected
    ctl = [
        ("good", {"pars": [{"fr": [[1, 1]], "n": 1, "user": 0, "ush": []}], "rows": [[N // 8], [-(N // 8)]]}, [0.5, -0.5], True),
        ("bad-coefficient", {"pars": [{"fr": [[1, 1]], "n": 1, "user": 0, "ush": []}], "rows": [[N // 8], [-(N // 8)]]}, [0.5, -0.4999], False),
        ("bad-shift", {"pars": [{"fr": [[1, 1]], "n": 1, "user": 0, "ush": []}], "rows": [[N // 8 - 1], [-(N // 8 - 1)]]}, [0.5, -0.5], False),
        ("good-order2", {"pars": [{"fr": [[1, 1]], "n": 2, "user": 0, "ush": []}], "rows": [[0], [-(N // 4)]]}, [-0.5, 0.5], True),
        ("wrong-order", {"pars": [{"fr": [[1, 1]], "n": 3, "user": 0, "ush": []}], "rows": [[0], [-(N // 4)]]}, [-0.5, 0.5], False),
        ("missing-frequency", {"pars": [{"fr": [[1, 1], [2, 1]], "n": 1, "user": 0, "ush": []}], "rows": [[N // 8], [-(N // 8)]]}, [0.5, -0.5], False),
        ("unsorted-duplicate", {"pars": [{"fr": [[1, 1]], "n": 1, "user": 0, "ush": []}], "rows": [[-(N // 8)], [N // 8], [N // 8]]}, [-0.5, 0.25, 0.25], True),
        ("multi-good", {"pars": [{"fr": [[1, 1]], "n": 1, "user": 0, "ush": []}] * 2, "rows": [[N // 8, N // 8], [N // 8, -(N // 8)], [-(N // 8), N // 8], [-(N // 8), -(N // 8)]]},
         [0.25, -0.25, -0.25, 0.25], True),
        ("multi-bad-sign", {"pars": [{"fr": [[1, 1]], "n": 1, "user": 0, "ush": []}] * 2, "rows": [[N // 8, N // 8], [N // 8, -(N // 8)], [-(N // 8), N // 8], [-(N // 8), -(N // 8)]]},
         [0.25, 0.25, -0.25, -0.25], False),
    ]
    base = len(traces)
    for (_, t, _, _) in ctl:
        traces.append(t)
    wd = lib.workdir(PID, "trace")
    (wd / "traces.json").write_text(json.dumps(traces))
    r = lib.run_tlc("Trace_ShiftRule", lib.cfg(constants={"M": M, "NTRACES": len(traces)}), wd, env={"TRACE_FILE": str(wd / "traces.json")})
    lib.require_ok(r, "Trace_ShiftRule")
    stats["states"] += r.distinct
    stats["transitions"] += r.generated
    out = {j["tid"] - 1: j for j in r.json_lines}
    if len(out) != len(traces):
        raise lib.MachineryError("Trace_ShiftRule: verdicts not total")

    def exact_error(j, coeffs, orders):
        worst, at = 0.0, None
        for ph in j["ph"]:
            z = np.array([lib.ring_to_complex(x, 0, M) for x in ph["z"]])
            w1 = ph["w1"][0] / ph["w1"][1]
            w2 = ph["sg"] * ph["w2"][0] / ph["w2"][1]
            tgt = (1j * w1) ** orders[0] * ((1j * w2) ** orders[1] if len(orders) > 1 else 1.0)
            for zz, tt in ((z, tgt), (np.conj(z), np.conj(tgt))):
                e = ident_error(coeffs, zz, tt)
                if e > worst:
                    worst, at = e, (w1, w2) if len(orders) > 1 else (w1,)
        return worst, at

    # controls
    nrej = 0
    for k, (name, t, coeffs, good) in enumerate(ctl):
        j = out[base + k]
        if j["st"] != "ok":
            raise lib.MachineryError(f"control {name}: TLC status {j['st']}")
        e, _ = exact_error(j, np.array(coeffs), [p["n"] for p in t["pars"]])
        if good and e > TOL:
            raise lib.MachineryError(f"control {name}: a correct rule is rejected (error {e})")
        if not good:
            if e <= TOL_CAP:
                raise lib.MachineryError(f"negative control {name} accepted (error {e})")
            nrej += 1
        if name == "unsorted-duplicate":
            if j["d"]["distinct"] != "no" or j["d"]["sorted"] != "no":
                raise lib.MachineryError("negative control: TLC accepted duplicate / unsorted shifts")
            nrej += 1
    ctx.inc("negative_controls_rejected", nrej)
    # implementation rules
    for k, info in enumerate(meta):
        j = out[k]
        if j["st"] != "ok":
            ctx.inc("offlattice_rules_bridged")
            judge(ctx, info, info["num_err"], f"w={info['num_at']}", exact=False)
            continue
        e, at = exact_error(j, info["arr"][:, 0], info["orders"])
        ctx.inc("lattice_rules_with_exact_phases")
        ctx.inc("exact_phases_used", sum(len(ph["z"]) for ph in j["ph"]))
        judge(ctx, info, max(e, info["num_err"]), f"w={at} (exact phases: {e:.3g}; float shifts: {info['num_err']:.3g})", exact=True)
        d = j["d"]
        for name in ("distinct", "sorted", "modper"):
            if d[name] == "no":
                ctx.inc(f"drift_{name}")
                ctx.drift.append(f"{info['tag']}: {name}")
        for name in ("range", "cand"):
            if "no" in d[name]:
                ctx.inc(f"drift_{name}")
                ctx.drift.append(f"{info['tag']}: {name}")
        req = info["req"]
        if req is not None and req["n"] == 1 and len(info["arr"]) != 2 * len(info["fr"]):
            ctx.inc("drift_nterms")
    return stats, user_det


def misfit_class(info):
    """request-level class: some parameter has an arithmetic-progression spectrum (R >= 2) that is not f_min * (1..R) and uses the default
    shifts (or user shifts equal to them)"""
    sh = info["replay"].get("shifts")
    fl = info["freqs"]
    for p, f in enumerate(fl):
        f = sorted(float(w) for w in f)
        if len(f) < 2:
            continue
        d = np.diff(f)
        if not np.allclose(d, d[0], rtol=0, atol=1e-9) or abs(f[0] - d[0]) < 1e-9:
            continue
        s_p = sh if (sh is None or len(fl) == 1) else sh[p]
        if s_p is None or np.allclose(sorted(s_p), default_shifts(f), rtol=0, atol=1e-9):
            return True
    return False


def judge(ctx, info, err, where, exact):
    """raise the property-level violation for a rule whose identities fail"""
    ok = err <= info["tol"]
    ctx.inc("rules_judged")
    if max(info["orders"]) >= 2:
        ctx.inc("higher_order_rules_judged")
    if not ok and info.get("ill") and info.get("user"):
        ctx.inc("user_shift_rules_numerically_singular_skipped")      # precondition of the statement: the user's shifts must determine a rule
        return
    if ok:
        ctx.inc("rules_exact")
        if max(info["orders"]) >= 2:
            ctx.inc("higher_order_rules_exact")
        ctx.nontrivial.add(info["tag"].replace(":float", ""))
        if len(ctx.samples) < 4 and len(info["arr"]) >= 4 and all(str(info["fr"]) != s_["_fr"] for s_ in ctx.samples):
            ctx.samples.append({"_fr": str(info["fr"]), "request": info["tag"], "terms": len(info["arr"]), "coefficients": np.round(info["arr"][:, 0], 6).tolist()[:8],
                                "max_identity_error": float(f"{err:.3g}"), "exact_phases": exact})
        return
    warned = "warned" if info["warns"] else "silent"
    # one violation per (class, request without order / float variant): the first failing order is described
    base_tag = info["tag"].replace(":float", "")
    base_tag = ":".join(t for t in base_tag.split(":") if not t.startswith("n="))
    if misfit_class(info):
        # class decided from the REQUEST alone: an arithmetic-progression spectrum that is not f_min * (1..R), with the default shifts
        key = f"progression-not-multiples-of-fmin:{warned}:{base_tag}"
        why = "the frequencies form an arithmetic progression (or are just two) but are not f_min*(1..R), shifts are the documented default ones; "
        if info["singular_default"]:
            why += "TLC proves (ring determinant = 0) that NO first-order rule with these shifts exists; "
    elif info["singular_default"]:
        key = f"default-shifts-singular:{warned}:{base_tag}"
        why = "TLC proves (ring determinant = 0) that NO first-order rule with the documented default shifts exists for these frequencies; "
    elif info.get("numerically_singular") or info.get("ill"):
        key = f"default-shifts-singular:{warned}:{base_tag}"
        why = f"the sine matrix of the default shifts is numerically singular (cond {info.get('numerically_singular') or float('inf'):.3g}); "
    else:
        key = f"identity-fails:{warned}:{base_tag}"
        why = ""
    ctx.inc("rules_violating_their_identities")
    ctx.violate(key, f"{info['tag']}: {why}the returned rule violates sum_j c_j e^(i w s_j) = (i w)^n by {err:.3g} at {where} (tolerance {info['tol']:.3g}); "
                     f"warnings: {info['warns'] or 'none'}; rule = {np.round(info['arr'], 6).tolist()[:8]}", info["replay"])


# ------------------------------------------------------------------------------------------------ bridged families
def numeric_part(ctx, tier, rng):
    reps = 1 if tier == "quick" else 12
    fams = []
    for _ in range(reps):
        for R in (3, 5, 6):
            fams.append(("equidistant", tuple(range(1, R + 1)), None))
        s = rng.choice([0.3, 0.7, 1.3, 2.5])
        fams.append(("equidistant-scaled", tuple(round(s * k, 6) for k in range(1, rng.choice([2, 3, 5]) + 1)), None))
        fams.append(("integer-multiples", tuple(sorted(rng.sample(range(1, 9), 3))), "rand"))
        fams.append(("integer-multiples", tuple(sorted(rng.sample(range(1, 7), 2))), "rand"))
        fams.append(("integer-multiples", tuple(sorted(rng.sample(range(1, 9), 3))), None))
        fams.append(("non-commensurate", (1.0, math.sqrt(2.0)), None))
        fams.append(("non-commensurate", (1.0, math.sqrt(2.0), math.pi), "rand"))
        fams.append(("non-commensurate", (round(rng.uniform(0.3, 1.0), 4), math.sqrt(3.0)), "rand"))
        fams.append(("dense", tuple(sorted(rng.sample([round(0.1 * k, 1) for k in range(2, 40)], rng.choice([4, 5, 6])))), "rand"))
        fams.append(("dense", tuple(sorted(rng.sample([round(0.1 * k, 1) for k in range(2, 40)], 4))), "rand"))
    for (fam, freqs, mode) in fams:
        shifts = None
        if mode == "rand":
            for _try in range(40):
                shifts = tuple(sorted(round(rng.uniform(0.15, 3.0), 3) for _ in freqs))
                if len(set(shifts)) == len(freqs) and sine_cond(freqs, shifts) < 1e4:
                    break
            else:
                ctx.inc("bridged_skipped_ill_conditioned_user_shifts")
                continue
        cond = sine_cond(freqs, shifts if shifts is not None else default_shifts(freqs))
        for n in (1, 2, 3, 4):
            arr, exc, warns = call_rule(freqs, shifts, n)
            ctx.inc("rule_calls")
            tag = f"bridged:{fam}:{'user' if shifts else 'default'}:fr={tuple(round(f, 4) for f in freqs)}:n={n}" + (f":sh={shifts}" if shifts else "")
            replay = {"frequencies": freqs, "shifts": shifts, "order": n}
            if arr is None or arr.ndim != 2 or not np.all(np.isfinite(arr)):
                ctx.violate(f"raised:{tag}", f"generate_shift_rule{(freqs, shifts, n)} -> {exc or arr!r}", replay)
                continue
            err, at = numeric_identities(arr, [freqs], [n])
            sz = size_of(freqs, shifts)
            info = {"tag": tag, "fr": freqs, "arr": arr, "tol": tol_for([sz], [n], arr, [freqs]), "warns": warns, "replay": replay,
                    "singular_default": False, "numerically_singular": cond if (shifts is None and cond > 1e10) else None, "orders": [n], "freqs": [freqs],
                    "ill": sz > ILL, "user": shifts is not None}
            ctx.inc("offlattice_rules_bridged")
            ctx.inc(f"bridged_{fam}")
            judge(ctx, info, err, f"w={at}", exact=False)
    # bridged multi rules
    for _ in range(reps * 2):
        fa = tuple(sorted(rng.sample(range(1, 6), rng.choice([1, 2, 3]))))
        fb = (1.0, round(rng.uniform(1.2, 2.9), 3))
        orders = [rng.choice([1, 2]), rng.choice([1, 2, 3])]
        arr, exc, warns = call_multi([fa, fb], None, orders)
        tag = f"bridged:multi:fr={fa}x{fb}:n={orders}"
        if arr is None:
            ctx.violate(f"raised:{tag}", f"generate_multi_shift_rule -> {exc}", {"frequencies": [fa, fb], "orders": orders})
            continue
        err, at = numeric_identities(arr, [fa, fb], orders)
        conds = [sine_cond(f, default_shifts(f)) for f in (fa, fb)]
        szs = [size_of(fa, None), size_of(fb, None)]
        info = {"tag": tag, "fr": [fa, fb], "arr": arr, "tol": tol_for(szs, orders, arr, [fa, fb]), "warns": warns,
                "replay": {"frequencies": [fa, fb], "orders": orders}, "singular_default": False,
                "numerically_singular": max(conds) if max(conds) > 1e10 else None, "orders": orders, "freqs": [fa, fb], "ill": max(szs) > ILL, "user": False}
        ctx.inc("offlattice_rules_bridged")
        judge(ctx, info, err, f"w={at}", exact=False)


# ------------------------------------------------------------------------------------------------ (R) replay on real functions
ROT1 = ["RX", "RY", "RZ"]
CROT = ["CRX", "CRY", "CRZ"]


def replay_case(rng, M, kind, user_det):
    """-> dict(n, ops, groups=[{pos:[..], mult:c, x:lattice int, freqs:(..), fr_rat}], pw, orders, shifts(per group or None))"""
    N = 1 << M
    n = 1 if kind in ("R1",) and rng.random() < 0.4 else 2
    ctxk = ["g1", "r1"] + (["g2"] if n >= 2 else [])
    ops, groups = [], []
    ops += devsim.random_circuit(rng, n, M, rng.randint(1, 2), ctxk)

    def add_group(gates, mult):
        x = rng.randrange(1, N)
        pos = []
        for gname in gates:
            w = rng.sample(range(1, n + 1), 2) if gname in CROT else [rng.randint(1, n)]
            pos.append(len(ops))
            ops.append(rec(gname, w, [(mult * x) % N]))
            ops.extend(devsim.random_circuit(rng, n, M, rng.randint(0, 1), ctxk))
        return {"pos": pos, "mult": mult, "x": x}

    if kind in ("R1", "R2", "R4"):
        R = int(kind[1])
        gsp = add_group([rng.choice(ROT1) for _ in range(R)], 1)
        gsp["fr"] = [(k, 1) for k in range(1, R + 1)]
        groups = [gsp]
    elif kind == "S2":                     # scaled argument: RX(2x) -> frequency 2
        gsp = add_group([rng.choice(ROT1)], 2)
        gsp["fr"] = [(2, 1)]
        groups = [gsp]
    elif kind == "C":                      # controlled rotation: frequencies 1/2, 1
        gsp = add_group([rng.choice(CROT)], 1)
        gsp["fr"] = [(1, 2), (1, 1)]
        groups = [gsp]
    elif kind == "CR":                     # controlled rotation and a rotation on the same argument: 1/2, 1, 3/2, 2
        gsp = add_group([rng.choice(CROT), rng.choice(ROT1)], 1)
        gsp["fr"] = [(1, 2), (1, 1), (3, 2), (2, 1)]
        groups = [gsp]
    elif kind in ("U2", "U3"):             # user shifts proved admissible by TLC
        R = int(kind[1])
        gsp = add_group([rng.choice(ROT1) for _ in range(R)], 1)
        gsp["fr"] = [(k, 1) for k in range(1, R + 1)]
        cands = [r for r in user_det if [tuple(f) for f in r["fr"]] == gsp["fr"] and r["n"] == 1]
        gsp["ush"] = list(rng.choice(cands)["sh"]) if cands else None
        groups = [gsp]
    elif kind.startswith("M"):             # two arguments
        ra, rb = {"M11": (1, 1), "M12": (1, 2), "M22": (2, 2), "MC1": ("C", 1)}[kind]
        ga = add_group([rng.choice(CROT)] if ra == "C" else [rng.choice(ROT1) for _ in range(ra)], 1)
        ga["fr"] = [(1, 2), (1, 1)] if ra == "C" else [(k, 1) for k in range(1, ra + 1)]
        gb = add_group([rng.choice(ROT1) for _ in range(rb)], 1)
        gb["fr"] = [(k, 1) for k in range(1, rb + 1)]
        groups = [ga, gb]
    enc_wires = {w for g_ in groups for k in g_["pos"] for w in ops[k]["w"]}
    words = [list(w) for w in __import__("itertools").product(range(4), repeat=n) if any(w[q - 1] for q in enc_wires)]
    return {"n": n, "ops": ops, "groups": groups, "pws": rng.sample(words, 3), "kind": kind, "M": M}


def shifted_ops(case, deltas):
    N = 1 << case["M"]
    ops = [dict(g) for g in case["ops"]]
    for gsp, d in zip(case["groups"], deltas):
        for p in gsp["pos"]:
            ops[p] = dict(ops[p], p=[(gsp["mult"] * (gsp["x"] + d)) % N])
    return ops


def replay_part(ctx, tier, rng, user_det):
    plan = {4: (["R1", "R2", "C", "S2", "CR", "M11", "M12", "MC1", "M22"], 2 if tier == "quick" else 14),
            5: (["R4", "U2", "U3", "R2"], 1 if tier == "quick" else 6)}
    stats = {"states": 0, "transitions": 0}
    for M, (kinds, reps) in plan.items():
        jobs = []           # (case, orders, rule array, lattice rows)
        for kind in kinds:
            for _ in range(reps):
                case = replay_case(rng, M, kind, user_det)
                gs = case["groups"]
                if len(gs) == 1:
                    freqs = tuple(pyfreq(f) for f in gs[0]["fr"])
                    shifts = None
                    if "ush" in gs[0]:
                        if gs[0]["ush"] is None:
                            continue
                        shifts = tuple(a * unit(5) for a in gs[0]["ush"])      # the generator's lattice is 4pi/32
                    for n in (1, 2):
                        arr, exc, _ = call_rule(freqs, shifts, n)
                        if arr is None:
                            continue             # reported by the lattice part
                        rows = lattice_rows(arr[:, 1:], M)
                        if rows is None:
                            ctx.inc("replay_skipped_offlattice")
                            continue
                        jobs.append((case, [n], arr, rows, {"frequencies": freqs, "shifts": shifts, "order": n}))
                else:
                    freqs = [tuple(pyfreq(f) for f in g_["fr"]) for g_ in gs]
                    arr, exc, _ = call_multi(freqs, None, [1, 1])
                    if arr is None:
                        continue
                    rows = lattice_rows(arr[:, 1:], M)
                    if rows is None:
                        ctx.inc("replay_skipped_offlattice")
                        continue
                    jobs.append((case, [1, 1], arr, rows, {"frequencies": freqs, "orders": [1, 1]}))
        # exact function values at the shifted points
        tcases, owner = [], []
        for ji, (case, orders, arr, rows, _) in enumerate(jobs):
            for row in rows:
                tcases.append({"n": case["n"], "ops": shifted_ops(case, row), "meas": [{"t": "expval", "pw": w} for w in case["pws"]]})
                owner.append(ji)
        vals, st = tapeeval.evaluate(PID, tcases, M, name=f"shifted{M}")
        stats["states"] += st["distinct"]
        stats["transitions"] += st["generated"]
        # exact derivatives (each distinct case once)
        uniq = []
        for (case, *_rest) in jobs:
            if not any(case is c for c in uniq):
                uniq.append(case)
        dcases = [{"n": c["n"], "ops": c["ops"], "tr": [p for g_ in c["groups"] for p in g_["pos"]]} for c in uniq]
        sts, st = deriv.states(PID, dcases, M, order=2, name=f"deriv{M}")
        stats["states"] += st["distinct"]
        stats["transitions"] += st["generated"]
        fvals = [[] for _ in jobs]
        for ji, v in zip(owner, vals):
            fvals[ji].append(v["meas"])
        ncorrupt = 0
        for ji, (case, orders, arr, rows, replay) in enumerate(jobs):
            stt = sts[[i for i, c in enumerate(uniq) if c is case][0]]
            gs = case["groups"]
            size = max(1.0, float(np.sum(np.abs(arr[:, 0]))))
            ctx.inc("replay_exact_function_values", len(rows) * len(case["pws"]))
            for oi, pw in enumerate(case["pws"]):
                m = ("expval", pw)
                fv = np.array([row[oi] for row in fvals[ji]])
                if len(gs) == 1:
                    g_ = gs[0]
                    if orders == [1]:
                        exp = sum(g_["mult"] * deriv.grad(m, stt, case["n"], k) for k in g_["pos"])
                    else:
                        exp = sum(g_["mult"] ** 2 * deriv.hess(m, stt, case["n"], j, k) for j in g_["pos"] for k in g_["pos"])
                else:
                    exp = sum(gs[0]["mult"] * gs[1]["mult"] * deriv.hess(m, stt, case["n"], j, k) for j in gs[0]["pos"] for k in gs[1]["pos"])
                got = float(np.dot(arr[:, 0], fv))
                ctx.inc("replay_rules_applied_to_exact_values")
                tag = f"replay:{case['kind']}:n={orders}"
                if abs(got - exp) > TOL_REPLAY * size:
                    ctx.violate(f"replay:{case['kind']}:order={orders}:rule-differs-from-derivative",
                                f"rule applied to the exact values gives {got!r}, exact derivative {exp!r}; circuit {[(g['g'], g['w'], g['p']) for g in case['ops']]} "
                                f"observable {pw} groups {[(g_['pos'], g_['mult'], g_['x']) for g_ in gs]} lattice 4pi/{1 << M}; rule {np.round(arr, 6).tolist()[:8]}",
                                dict(replay, case={k: v for k, v in case.items()}, observable=pw))
                elif abs(exp) > 1e-6:
                    ctx.nontrivial.add((tag, ji, oi, M))
                    ctx.inc("replay_nontrivial")
                    if len(ctx.replay_samples) < 2 and len(arr) >= 4 and all(s_["kind"] != case["kind"] for s_ in ctx.replay_samples):
                        ctx.replay_samples.append({"kind": case["kind"], "orders": orders, "gates": [(g["g"], g["w"], g["p"]) for g in case["ops"]],
                                                   "observable": pw, "rule_terms": len(arr), "exact_derivative": round(float(exp), 10),
                                                   "rule_of_exact_values": round(got, 10)})
                # negative control: one corrupted coefficient must be noticed whenever the corrupted term matters
                bad = arr[:, 0].copy()
                bad[0] += 0.01
                if abs(fv[0]) > 1e-3 and abs(got - exp) <= TOL_REPLAY * size:
                    if abs(float(np.dot(bad, fv)) - exp) <= TOL_REPLAY * size:
                        raise lib.MachineryError("replay negative control accepted")
                    ncorrupt += 1
        ctx.inc("negative_controls_rejected", min(ncorrupt, 3))
    return stats


def run(tier, seed):
    rng = random.Random(3500 + seed)
    ctx = Ctx()
    M = 5
    gs = deriv.selfcheck(PID, 4)
    stats, user_det = lattice_part(ctx, tier, rng, M)
    numeric_part(ctx, tier, rng)
    st2 = replay_part(ctx, tier, rng, user_det)
    c = ctx.counts
    if __import__("os").environ.get("VERIF_DEBUG"):
        for v in ctx.viol:
            print("DEBUG", v.key, "|", v.detail[:200])
    if c.get("lattice_rules_with_exact_phases", 0) < 50 or c.get("higher_order_rules_judged", 0) < 20 or c.get("replay_rules_applied_to_exact_values", 0) < 30 \
            or (not ctx.viol and (c.get("higher_order_rules_exact", 0) < 20 or c.get("replay_nontrivial", 0) < 8)):
        raise lib.MachineryError(f"vacuity: {c}")
    if c.get("negative_controls_rejected", 0) < 6:
        raise lib.MachineryError("negative controls missing")
    cov = {"states": stats["states"] + st2["states"] + gs.distinct, "transitions": stats["transitions"] + st2["transitions"] + gs.generated,
           "traces_validated_against_impl": c.get("lattice_rules_with_exact_phases", 0),
           "evaluations": c.get("rule_calls", 0) + c.get("multi_rule_calls", 0) + c.get("replay_rules_applied_to_exact_values", 0),
           "distinct_nontrivial": len(ctx.nontrivial),
           "rule": "non-trivial = distinct (frequency set, shifts, order) requests whose returned rule satisfies every defining identity, plus replayed "
                   "(circuit, order) pairs whose exact derivative is non-zero and is reproduced by the rule from exact function values",
           "samples": ctx.samples[:3] + ctx.replay_samples[:2], "exhaustive": False,
           "model_drift": {k: v for k, v in c.items() if k.startswith("drift_")}, "model_drift_examples": ctx.drift[:5],
           "lattice": f"4pi/{1 << M}", **{k: v for k, v in c.items() if not k.startswith("drift_")}}
    return CheckResult(coverage=cov, violations=ctx.viol, assumptions=[
        "partial: coefficients are irrational floats; TLC supplies the exact phases / periods / singularity verdicts and the exact function values and "
        "derivatives, the sums sum_j c_j * (exact value) are formed in float64 and compared at 1e-9 * (sum|c|)^order (identities) and 1e-8 (replay)",
        "rules whose shifts are not multiples of 4pi/32 (R = 3, 5, 6, non-commensurate, dense) are evaluated numerically only (bridged)",
        "user shift sets are drawn from lattice points for which TLC proves the sine matrix non-singular; random off-lattice user shifts are "
        "restricted to cond < 1e4; a singular system caused by the DEFAULT shifts is charged to the implementation",
        "ordering / merging / folding of shifts is mechanism: disagreements are counted as model drift, not violations",
        "the generator table behind the exact derivatives is model-checked against the gate table at M = 4 (GenSelf.tla); the R = 4 replays run at M = 5 "
        "with the same table definitions"])
