"""C45 Wires behave as an ordered set of labels.

(M) WiresSet.tla states the documented semantics of Wires (duplicate-free sequences of label ids) as pure operators;
    WiresGen.tla enumerates every sequence / pair / triple / subset request / wire map up to the bound and TLC checks the
    algebraic laws of the specification itself on each case (invariant Laws).
(R) spec -> code: TLC emits the expected outcome of every case; the driver replays it into pennylane.wires.Wires through
    three label tables mixing ints, strings and tuples and through several call forms (methods, operators, reflected
    operators, Wires / list / tuple operands) and compares.
(T) code -> spec: seeded larger label lists over a 12-label mixed universe are run through the real class, every call is
    recorded (inputs, outputs as label ids, exception class) and Trace_Wires.tla decides each record."""
import json
import random

from pennylane.wires import Wires

from .. import lib
from ..lib import CheckResult, Violation

TABLES = [
    [0, "a", (0, 1), 3, "b"],
    [10, 9, -1, 0, 2],                      # all ints: sort=True is numeric (differs from the str order)
    ["q1", 2, ("x", 0), "02", -7],
]
BIG = [0, 1, 2, 5, -3, 11, "a", "b", "aux", "q0", (0, 1), ("x", 2)]
IDXVALS = [-1, 0, 1, 2, 3, 5]
SETOPS = ["union", "inter", "diff", "rdiff", "sym"]
DOCNAME = {"union": "union", "inter": "intersection", "diff": "difference", "rdiff": "difference(reflected)",
           "sym": "symmetric_difference"}


def key_of(table):
    strs = [str(x) for x in table]
    if len(set(strs)) != len(strs) or len(set(table)) != len(table):
        raise lib.MachineryError("label table must have distinct labels with distinct str()")
    order = sorted(strs)
    return {"isint": [i + 1 for i, x in enumerate(table) if type(x) is int],
            "ival": [x if type(x) is int else 0 for x in table], "srank": [order.index(s) + 1 for s in strs]}


def key_tla(k):
    return (f"[isint |-> {{{','.join(map(str, k['isint']))}}}, ival |-> <<{','.join(map(str, k['ival']))}>>, "
            f"srank |-> <<{','.join(map(str, k['srank']))}>>]")


class Codec:
    def __init__(self, table):
        self.table = table
        self.rev = {x: i + 1 for i, x in enumerate(table)}

    def lab(self, ids):
        return [self.table[i - 1] for i in ids]

    def ids(self, wires):
        """label ids of a result (0 = a label that is not in the table)"""
        if not isinstance(wires, Wires):
            raise TypeError(f"result is not a Wires object: {type(wires).__name__}")
        out = []
        for x in wires.labels:
            try:
                out.append(self.rev.get(x, 0))
            except TypeError:
                out.append(0)
        return out


def _other(labels, v):
    return Wires(labels) if v % 3 == 0 else (list(labels) if v % 3 == 1 else tuple(labels))


def perform(case, cd, v):
    """Run one case on the real class (call form chosen by v); returns the observation record."""
    op = case["op"]
    la = cd.lab(case["a"])
    if op == "new":
        try:
            if v % 3 == 2 and len(la) == 1 and not isinstance(la[0], tuple):
                w = Wires(la[0])                       # a single non-iterable / string label
            elif v % 3 == 1:
                w = Wires(tuple(la))
            else:
                w = Wires(la)
            if v % 2:
                w = Wires(w)
            return {"exc": "", "seq": cd.ids(w), "len": len(w)}
        except Exception as e:  # noqa: BLE001
            return {"exc": type(e).__name__, "seq": [], "len": -1}
    A = Wires(la)
    if op == "pair":
        lb = cd.lab(case["b"])
        B, O = Wires(lb), _other(lb, v)
        o = {"exc": ""}
        try:
            if v % 3 == 0:
                res = {"union": A.union(O), "inter": A.intersection(O), "diff": A.difference(O), "rdiff": B.difference(A),
                       "sym": A.symmetric_difference(O)}
                o["all"] = cd.ids(Wires.all_wires([A, B]))
            elif v % 3 == 1:
                res = {"union": A | O, "inter": A & O, "diff": A - O, "rdiff": O - A, "sym": A ^ O}
                o["all"] = cd.ids(A + O)
            else:
                res = {"union": O | A, "inter": O & A, "diff": A - B, "rdiff": O - A, "sym": O ^ A}
                o["all"] = cd.ids(Wires.all_wires([A, O]))
            for k, w in res.items():
                o[k] = sorted(cd.ids(w))
            o["shared"] = cd.ids(Wires.shared_wires([A, B]))
            o["unique"] = cd.ids(Wires.unique_wires([A, B]))
            o["sorted"] = cd.ids(Wires.all_wires([A, B], sort=True))
            o["eq"] = bool(A == B) and not bool(A != B)
            o["hasheq"] = hash(Wires(la)) == hash(Wires(lb))
            o["contains"] = bool(A.contains_wires(B))
            idx = []
            for j, x in enumerate(lb):
                try:
                    r = A.index(Wires([x]) if (j + v) % 2 else x)
                    idx.append(r if isinstance(r, int) and r >= 0 else -9)
                except Exception:  # noqa: BLE001
                    idx.append(-1)
            o["index"] = idx
            try:
                o["indices"] = [int(i) for i in A.indices(O)]
                o["indices_exc"] = False
            except Exception:  # noqa: BLE001
                o["indices"], o["indices_exc"] = [], True
        except Exception as e:  # noqa: BLE001
            o = {"exc": type(e).__name__}
        for k in SETOPS + ["all", "shared", "unique", "sorted", "index", "indices"]:
            o.setdefault(k, [])
        for k in ("eq", "hasheq", "contains", "indices_exc"):
            o.setdefault(k, False)
        return o
    if op == "triple":
        ws = [A, Wires(cd.lab(case["b"])), Wires(cd.lab(case["c"]))]
        try:
            return {"exc": "", "all": cd.ids(Wires.all_wires(ws if v % 2 == 0 else [A, _other(cd.lab(case["b"]), v), ws[2]])),
                    "shared": cd.ids(Wires.shared_wires(ws)), "unique": cd.ids(Wires.unique_wires(ws))}
        except Exception as e:  # noqa: BLE001
            return {"exc": type(e).__name__, "all": [], "shared": [], "unique": []}
    if op == "sub":
        idx = list(case["idx"])
        arg = idx[0] if (len(idx) == 1 and v % 2) else idx
        try:
            w = A.subset(arg, periodic_boundary=True) if case["per"] else (A.subset(arg) if v % 3 else A.subset(arg, False))
            return {"exc": "", "seq": cd.ids(w)}
        except Exception as e:  # noqa: BLE001
            return {"exc": type(e).__name__, "seq": []}
    if op == "map":
        wm = {cd.table[k - 1]: cd.table[t - 1] for k, t in case["m"]}
        try:
            return {"exc": "", "seq": cd.ids(A.map(wm))}
        except Exception as e:  # noqa: BLE001
            return {"exc": type(e).__name__, "seq": []}
    raise lib.MachineryError("unknown op " + op)


def _seq(x):
    return [] if x in ({}, None) else x


def compare(case, o, exp, ti):
    """Python comparator for the replay direction (expected values come from TLC).  Returns (clause or None, flags)."""
    op = case["op"]
    if op == "new":
        if exp["ok"]:
            if o["exc"]:
                return "new:valid-labels-rejected:" + o["exc"], ""
            if o["seq"] != _seq(exp["seq"]) or o["len"] != len(_seq(exp["seq"])):
                return "new:labels", ""
            return None, ""
        if not o["exc"]:
            return "new:duplicates-accepted", ""
        return ("new:duplicates-wrong-exception:" + o["exc"], "") if o["exc"] != "WireError" else (None, "")
    if op == "pair":
        if o["exc"]:
            return "pair:exception:" + o["exc"], ""
        for k in SETOPS:
            if o[k] != _seq(exp[k]):
                return DOCNAME[k], ""
        for k, nm in (("all", "all_wires"), ("shared", "shared_wires"), ("unique", "unique_wires")):
            e = _seq(exp[k])
            if sorted(o[k]) != sorted(e):
                return nm + ":set", ""
            if o[k] != e:
                return nm + ":order", ""
        if o["sorted"] != _seq(_seq(exp["sorted"])[ti]):
            return "all_wires(sort=True)", ""
        if o["eq"] != exp["eq"]:
            return "eq", ""
        if exp["eq"] and not o["hasheq"]:
            return "hash:equal-objects-differ", ""
        if o["contains"] != exp["contains"]:
            return "contains_wires", ""
        if o["index"] != _seq(exp["index"]):
            return "index", ""
        if o["indices_exc"] != (not exp["indices_ok"]) or (exp["indices_ok"] and o["indices"] != _seq(exp["index"])):
            return "indices", ""
        return None, ("collide" if (not exp["eq"] and exp["sameset"] and o["hasheq"]) else ("perm" if not exp["eq"] and exp["sameset"] else ""))
    if op == "triple":
        if o["exc"]:
            return "triple:exception:" + o["exc"], ""
        for k, nm in (("all", "all_wires"), ("shared", "shared_wires"), ("unique", "unique_wires")):
            e = _seq(exp[k])
            if sorted(o[k]) != sorted(e):
                return nm + ":set", ""
            if o[k] != e:
                return nm + ":order", ""
        return None, ""
    if op == "sub":
        if not exp["dom"]:
            return None, "undef"
        if not exp["ok"]:
            return (None, "") if o["exc"] else ("subset:out-of-range-accepted", "")
        if o["exc"]:
            return "subset:exception:" + o["exc"], ""
        return ("subset", "") if o["seq"] != _seq(exp["seq"]) else (None, "")
    if op == "map":
        if not exp["ok"]:
            return (None, "") if o["exc"] else ("map:invalid-map-accepted", "")
        if o["exc"]:
            return "map:exception:" + o["exc"], ""
        return ("map", "") if o["seq"] != _seq(exp["seq"]) else (None, "")
    raise lib.MachineryError("unknown op")


def maps_tla(nl):
    ident = [(i, i) for i in range(1, nl + 1)]
    rot = [(i, i % nl + 1) for i in range(1, nl + 1)]
    swap = [(1, 2), (2, 1)] + [(i, i) for i in range(3, nl + 1)]
    partial = [(i, i % nl + 1) for i in range(1, nl + 1) if i != 2]
    noninj = [(1, 3), (2, 2), (3, 3)] + [(i, i) for i in range(4, nl + 1)]
    return "{" + ",".join("<<" + ",".join(f"<<{k},{t}>>" for k, t in m) + ">>" for m in (ident, rot, swap, partial, noninj)) + "}"


def rand_wires(rng, n, maxlen):
    return rng.sample(range(1, n + 1), rng.randint(0, maxlen))


def rand_case(rng, n):
    r = rng.random()
    z = {"b": [], "c": [], "idx": [], "per": False, "m": []}
    if r < 0.08:
        a = [rng.randint(1, n) for _ in range(rng.randint(0, 7))]
        return dict(z, op="new", a=a)
    if r < 0.55:
        a = rand_wires(rng, n, 8)
        u = rng.random()
        if u < 0.12:
            b = list(a)
        elif u < 0.3:
            b = list(a)
            rng.shuffle(b)
        elif u < 0.45 and a:
            b = rng.sample(a, rng.randint(0, len(a)))
        else:
            b = rand_wires(rng, n, 8)
        return dict(z, op="pair", a=a, b=b)
    if r < 0.72:
        return dict(z, op="triple", a=rand_wires(rng, n, 6), b=rand_wires(rng, n, 6), c=rand_wires(rng, n, 6))
    if r < 0.87:
        a = rand_wires(rng, n, 8)
        per = rng.random() < 0.5
        hi = 3 * len(a) + 2 if per else len(a) + 1
        idx = [rng.randint(-len(a) - 2 if per else 0, hi) for _ in range(rng.randint(0, 4))]
        if rng.random() < 0.6 and a:
            idx = rng.sample(range(len(a)), rng.randint(0, len(a)))
            if per:
                idx = [i + len(a) * rng.randint(-2, 2) for i in idx]
        return dict(z, op="sub", a=a, idx=idx, per=per)
    a = rand_wires(rng, n, 8)
    keys = set(a) | set(rand_wires(rng, n, 3))
    if rng.random() < 0.15 and a:
        keys.discard(rng.choice(a))
    keys = sorted(keys)
    imgs = rng.sample(range(1, n + 1), len(keys))
    if rng.random() < 0.15 and len(keys) >= 2:
        imgs[0] = imgs[1]
    return dict(z, op="map", a=a, m=[[k, t] for k, t in zip(keys, imgs)])


def run(tier, seed):
    quick = tier == "quick"
    nl = 5
    keys = [key_of(t) for t in TABLES]
    consts = {"NL": nl, "MaxLen": 3 if quick else 5, "NL3": 3 if quick else 4, "MaxLen3": 3, "MaxNew": 3 if quick else 4}
    wd = lib.workdir("C45", "gen")
    g = lib.run_tlc_mc("WiresGen", {"Keys": "<<" + ", ".join(key_tla(k) for k in keys) + ">>", "Maps": maps_tla(nl),
                                    "IdxVals": "{" + ",".join(map(str, IDXVALS)) + "}"}, wd,
                       constants=consts, invariants=["Laws"], timeout=6000)
    if g.invariant_violated:
        raise lib.MachineryError("WiresSet violates its own algebraic laws (oracle error): " + g.out[-1500:])
    lib.require_ok(g, "WiresGen")
    cases = g.json_lines
    if len(cases) < 5000:
        raise lib.MachineryError("generator produced too few cases")
    viol, seen = [], {}

    def flag(clause, case, exp, obs, table, v, origin):
        seen[(clause, origin)] = seen.get((clause, origin), 0) + 1
        if seen[(clause, origin)] > 2:
            return
        viol.append(Violation(key=clause, detail=f"case {json.dumps(case)} with labels {table!r} (call form {v}): expected "
                                                 f"{json.dumps(exp)} observed {json.dumps(obs)} [{origin}]",
                              replay={"case": case, "labels": repr(table), "variant": v, "expected": exp, "observed": obs}))
    cds = [Codec(t) for t in TABLES]
    n_eval, nontriv, samples = 0, set(), []
    cnt = {"new_with_duplicates": 0, "pair_overlapping": 0, "pair_permutations": 0, "perm_hash_collisions": 0, "index_missing": 0,
           "subset_out_of_range": 0, "subset_periodic_wrapped": 0, "subset_outside_documented_domain": 0,
           "subset_repeated_position_returned_duplicates": 0, "map_invalid": 0, "sorted_numeric_vs_str_differs": 0,
           "by_op": {}}
    per_case = 3 if quick else 2
    for i, item in enumerate(cases):
        c, exp = item["c"], item["exp"]
        cnt["by_op"][c["op"]] = cnt["by_op"].get(c["op"], 0) + 1
        good = True
        for r in range(per_case):
            ti, v = (i + r) % 3, (i // 3 + r) % 6
            o = perform(c, cds[ti], v)
            n_eval += 1
            cl, fl = compare(c, o, exp, ti)
            if cl:
                good = False
                flag(cl, c, exp, o, TABLES[ti], v, "replay of TLC case")
            if c["op"] == "pair" and exp["sameset"] and not exp["eq"]:       # judged on the inputs, whatever the verdict
                cnt["pair_permutations"] += 1
                cnt["perm_hash_collisions"] += bool(o["hasheq"])
            if fl == "undef":
                cnt["subset_outside_documented_domain"] += r == 0
                if not o["exc"] and len(set(o["seq"])) < len(o["seq"]):
                    cnt["subset_repeated_position_returned_duplicates"] += r == 0
        op = c["op"]
        if op == "new" and not exp["ok"]:
            cnt["new_with_duplicates"] += 1
        elif op == "pair":
            e = {k: _seq(exp[k]) for k in ("inter", "diff", "rdiff", "index", "sorted")}
            if e["inter"] and (e["diff"] or e["rdiff"]):
                cnt["pair_overlapping"] += 1
                if good:
                    nontriv.add(json.dumps(c, sort_keys=True))
                    if len(samples) < 2 and len(c["a"]) == 3 and len(c["b"]) == 3:
                        samples.append({"case": c, "labels": repr(TABLES[i % 3]), "expected": exp})
            cnt["index_missing"] += -1 in e["index"]
            s1 = _seq(_seq(e["sorted"])[1])
            cnt["sorted_numeric_vs_str_differs"] += s1 != sorted(s1, key=lambda x: keys[1]["srank"][x - 1])
        elif op == "triple":
            if good and _seq(exp["shared"]) and _seq(exp["unique"]):
                nontriv.add(json.dumps(c, sort_keys=True))
        elif op == "sub" and exp["dom"]:
            cnt["subset_out_of_range"] += not exp["ok"]
            if exp["ok"] and c["per"] and any(x < 0 or x >= len(c["a"]) for x in c["idx"]):
                cnt["subset_periodic_wrapped"] += 1
            if good and exp["ok"] and len(c["idx"]) == 2:
                nontriv.add(json.dumps(c, sort_keys=True))
        elif op == "map":
            cnt["map_invalid"] += not exp["ok"]
            if good and exp["ok"] and _seq(exp["seq"]) != c["a"]:
                nontriv.add(json.dumps(c, sort_keys=True))
    # negative controls of the comparator: corrupted expectations must be rejected
    neg_rej = 0
    pc = next(it for it in cases if it["c"]["op"] == "pair" and len(_seq(it["exp"]["inter"])) >= 1 and len(_seq(it["exp"]["all"])) >= 3)
    for fld, want in (("union", "union"), ("all", "all_wires:order"), ("eq", "eq")):
        bad = json.loads(json.dumps(pc["exp"]))
        bad[fld] = (not bad[fld]) if fld == "eq" else (_seq(bad[fld])[:-1] if fld == "union" else list(reversed(_seq(bad[fld]))))
        if compare(pc["c"], as_obs(pc["exp"]), bad, 0)[0] != want or compare(pc["c"], as_obs(pc["exp"]), pc["exp"], 0)[0] is not None:
            raise lib.MachineryError(f"negative control ({fld}) accepted by the comparator")
        neg_rej += 1
    dc = next(it for it in cases if it["c"]["op"] == "new" and not it["exp"]["ok"])
    if compare(dc["c"], {"exc": "", "seq": dc["c"]["a"], "len": len(dc["c"]["a"])}, dc["exp"], 0)[0] != "new:duplicates-accepted":
        raise lib.MachineryError("negative control (duplicates) accepted by the comparator")
    neg_rej += 1
    # ---------------------------------------------------------------- (T) recorded calls on seeded larger inputs
    rng = random.Random(seed)
    cd = Codec(BIG)
    n_rand = 4000 if quick else 40000
    recs = []
    for i in range(n_rand):
        c = rand_case(rng, len(BIG))
        v = rng.randrange(6)
        recs.append(dict(c, v=v, out=normalise(c["op"], perform(c, cd, v))))
    neg = build_negatives(recs)
    allrecs = recs + [x for _, x, _ in neg]
    wd2 = lib.workdir("C45", "trace")
    (wd2 / "traces.json").write_text(json.dumps({"key": key_of(BIG), "recs": allrecs}))
    r = lib.run_tlc("Trace_Wires", lib.cfg(init="TInit", next_="TNext", constants={"NTRACES": len(allrecs)}), wd2,
                    env={"TRACE_FILE": str(wd2 / "traces.json")}, timeout=6000)
    lib.require_ok(r, "Trace_Wires")
    verd = {t[1] - 1: (t[2], t[3]) for t in r.tuples if t[0] == "V"}
    if len(verd) != len(allrecs):
        raise lib.MachineryError(f"verdicts not total: {len(verd)} of {len(allrecs)}")
    nneg = 0
    for k, (want, _, base) in enumerate(neg):
        got = verd[len(recs) + k][0]
        # the corrupted record must be rejected; with the exact clause when the uncorrupted record was accepted
        if got == "ok" or (verd[base][0] == "ok" and got != want):
            raise lib.MachineryError(f"negative control '{want}' not rejected by Trace_Wires (verdict {got})")
        nneg += 1
    t_cnt = {"ok": 0, "undef": 0, "perm": 0, "collide": 0}
    for j, rec in enumerate(recs):
        v, fl = verd[j]
        if fl in ("perm", "collide"):                                        # flag depends on the inputs and the recorded hashes only
            cnt["pair_permutations"] += 1
            cnt["perm_hash_collisions"] += fl == "collide"
        if v != "ok":
            flag(v, {k: rec[k] for k in ("op", "a", "b", "c", "idx", "per", "m")}, "(recomputed by Trace_Wires.tla)", rec["out"], BIG,
                 rec["v"], "recorded call validated by TLC")
            continue
        t_cnt["ok"] += 1
        if fl in t_cnt:
            t_cnt[fl] += 1
        if rec["op"] == "pair" and rec["out"]["inter"] and rec["out"]["sym"] and len(rec["a"]) >= 4:
            nontriv.add(json.dumps([rec[k] for k in ("op", "a", "b")]))
            if len(samples) < 4:
                samples.append({"recorded": rec, "labels": repr(BIG), "verdict": v})
    if cnt["pair_permutations"] >= 10 and 2 * cnt["perm_hash_collisions"] > cnt["pair_permutations"]:
        viol.append(Violation(key="hash:ignores-order", detail=f"{cnt['perm_hash_collisions']} of {cnt['pair_permutations']} pairs of Wires with the "
                              "same labels in a different order have equal hashes", replay={"example": "hash(Wires([0,'a'])) vs hash(Wires(['a',0]))"}))
    for k in ("new_with_duplicates", "pair_overlapping", "pair_permutations", "index_missing", "subset_out_of_range",
              "subset_periodic_wrapped", "map_invalid", "sorted_numeric_vs_str_differs"):
        if not cnt[k]:
            raise lib.MachineryError(f"vacuous: branch '{k}' never exercised")
    cov = {"states": g.distinct + r.distinct, "transitions": g.generated + r.generated,
           "traces_validated_against_impl": len(recs), "evaluations": n_eval + len(recs),
           "distinct_nontrivial": len(nontriv),
           "rule": "WiresGen.tla enumerates every label sequence (with duplicates) up to MaxNew, every pair of duplicate-free sequences up to "
                   "MaxLen over 5 labels, every triple up to MaxLen3, subset requests and wire maps; non-trivial = distinct case that agreed on "
                   "every observable and is a pair with partial overlap, a triple with both shared and unique labels, a two-position subset "
                   "or a relabelling map; plus recorded seeded pairs (length >= 4) with non-empty intersection and symmetric difference",
           "samples": samples, "exhaustive": True,
           "model": {"module": "WiresSet", "invariant": "Laws (helpers vs set operations, order preservation, inclusion-exclusion, "
                                                        "index/subset inverse, map inverse, sort key order)",
                     "cases": len(cases), "bounds": consts, "label_tables": [repr(t) for t in TABLES], "trace_labels": repr(BIG)},
           "replayed_tlc_cases": len(cases), "call_forms_per_case": per_case, "recorded_seeded_calls": len(recs),
           "recorded_verdicts": t_cnt, "tlc_wall_s": [round(g.wall_s, 1), round(r.wall_s, 1)], "negative_controls_rejected": neg_rej + nneg, **cnt}
    return CheckResult(coverage=cov, violations=viol, assumptions=[
        "set operations are compared as sets (their order is not documented); helper results are compared in the documented order",
        "subset with negative non-periodic positions or a position selected twice is outside the documented domain (counted only)",
        "exception classes are demanded only for duplicate labels (WireError); elsewhere any exception counts as rejection",
        "hash order-sensitivity is judged in aggregate (isolated collisions are not violations)"])


def as_obs(exp):
    """an observation that agrees with the expected record of a pair case (label table 0)"""
    o = {k: _seq(exp[k]) for k in SETOPS + ["all", "shared", "unique", "index"]}
    o.update(exc="", sorted=_seq(_seq(exp["sorted"])[0]), eq=exp["eq"], hasheq=exp["eq"], contains=exp["contains"],
             indices_exc=not exp["indices_ok"], indices=_seq(exp["index"]) if exp["indices_ok"] else [])
    return o


def normalise(op, o):
    """observation -> the fixed record shape Trace_Wires.tla reads (every field always present)"""
    base = {"exc": "", "seq": [], "len": 0, "union": [], "inter": [], "diff": [], "rdiff": [], "sym": [], "all": [], "shared": [],
            "unique": [], "sorted": [], "eq": False, "hasheq": False, "contains": False, "index": [], "indices": [], "indices_exc": False}
    base.update(o)
    return base


def build_negatives(recs):
    """Corrupt one recorded field each -> [(expected verdict, record, index of the uncorrupted record)].  Base records are chosen by
    their INPUTS and the corrupted values are built from the inputs, so the controls do not depend on what the implementation did."""
    out = []

    def pick(pred):
        for j, r in enumerate(recs):
            if pred(r):
                return j, json.loads(json.dumps(r))
        raise lib.MachineryError("no base record for a negative control")

    def add(want, j, r, **chg):
        x = json.loads(json.dumps(r))
        x["out"].update(chg)
        x["out"]["exc"] = ""
        out.append((want, x, j))
    j, r = pick(lambda r: r["op"] == "pair" and len(set(r["a"]) & set(r["b"])) >= 2 and set(r["a"]) - set(r["b"]) and len(r["a"]) >= 3
                and not r["out"]["exc"])
    a, b = r["a"], r["b"]
    un = sorted(set(a) | set(b))
    add("union", j, r, union=un[:-1])
    add("union", j, r, union=sorted(un + [a[0]]))
    add("intersection", j, r, inter=sorted((set(a) & set(b)) | {next(x for x in a if x not in b)}))
    add("all_wires:order", j, r, all=list(reversed(a)) + [x for x in b if x not in a])
    add("shared_wires:set", j, r, shared=[])
    add("eq", j, r, eq=True)
    j, r = pick(lambda r: r["op"] == "pair" and r["a"] == r["b"] and len(r["a"]) >= 2 and not r["out"]["exc"])
    add("hash:equal-objects-differ", j, r, hasheq=False)
    j, r = pick(lambda r: r["op"] == "new" and len(set(r["a"])) < len(r["a"]))
    add("new:duplicates-accepted", j, r, seq=r["a"], len=len(r["a"]))
    j, r = pick(lambda r: r["op"] == "sub" and not r["per"] and len(r["idx"]) >= 2 and len(set(r["idx"])) == len(r["idx"])
                and min(r["idx"]) >= 0 and max(r["idx"]) < len(r["a"]))
    add("subset", j, r, seq=[r["a"][i] for i in reversed(r["idx"])])
    j, r = pick(lambda r: r["op"] == "map" and (set(r["a"]) - {k for k, _ in r["m"]}))
    add("map:invalid-map-accepted", j, r, seq=[])
    return out
