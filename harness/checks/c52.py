"""C52 Observable grouping partitions correctly.

(M) spec/sys/Grouping.tla is the relational specification: Group(input, type, groups, coefficient groups) is enabled iff the
    (word, coefficient) pairs of the groups are exactly the input multiset and the members of each group pairwise satisfy the
    relation (PQWC / PCommutes / PAnticommutes of PauliAlg, themselves model-checked against matrix algebra by C51's
    PauliAlgGen); Diagonalize(group, gates, images) is enabled iff the exact unitary U of the gates (reference table Gates.tla,
    ring Z[zeta_8][1/2]) satisfies U P U^dagger = image for every member, images are Z-type words and coefficients are kept.
    spec/gen/GroupingGen.tla makes TLC decide on the specification itself, for every set of few words on few wires, that the
    conditions accept a reference (first-fit) grouping and the documented rotations (X -> RY(-pi/2), Y -> RX(pi/2)) and reject
    merged groups, dropped / duplicated members, exchanged coefficients, an inverted rotation and missing rotations.
(T) code -> spec: group_observables (with coefficients), compute_partition_indices, optimize_measurements,
    diagonalize_qwc_pauli_words and diagonalize_qwc_groupings are called for every grouping type x colouring method on
    exhaustive families of word sets and on seeded multisets (duplicates, identities, random labels and order); every call is
    recorded and spec/trace/Trace_Grouping.tla decides whether the corresponding action is enabled (verdicts are total).
"""
import itertools
import json
import random

import numpy as np

import pennylane as qp
from pennylane.pauli import (compute_partition_indices, diagonalize_qwc_groupings, diagonalize_qwc_pauli_words, group_observables,
                             optimize_measurements)

from .. import lib
from ..codec import OffLattice, encode_op
from ..lib import CheckResult
from ..paulis import LET, Agg, gd_to_number, labels_for, make_op, to_gd, word_of_pw

PID = "C52"
M = 3
TYPES = ["qwc", "commuting", "anticommuting"]
METHODS = ["lf", "rlf", "dsatur", "gis"]


# ------------------------------------------------------------------------------------------------ encoding
def enc_obs(op, labels):
    """operator -> (word, coefficient) through its Pauli representation; a non-word is encoded as a malformed word."""
    n = len(labels)
    pr = getattr(op, "pauli_rep", None)
    if pr is None or len(pr) != 1:
        return [9] * n, [1, 0, 0]
    pw, c = next(iter(pr.items()))
    w = word_of_pw(pw, labels)
    g = to_gd(qp.math.unwrap([c])[0] if not isinstance(c, (int, float, complex)) else c)
    if w is None or g is None:
        return [9] * n, [1, 0, 0]
    return list(w), g


def enc_coef(c):
    g = to_gd(np.asarray(c).item() if hasattr(c, "shape") or isinstance(c, np.generic) else c)
    return g if g is not None else [0, 0, 40]


def gd_mul(a, b):
    re, im, k = a[0] * b[0] - a[1] * b[1], a[0] * b[1] + a[1] * b[0], a[2] + b[2]
    while k > 0 and re % 2 == 0 and im % 2 == 0:
        re, im, k = re // 2, im // 2, k - 1
    return [re, im, k]


def enc_gates(gates, labels, stats):
    wpos = {l: i + 1 for i, l in enumerate(labels)}
    out = []
    for g in gates:
        try:
            out.append(encode_op(g, wpos, M))
        except (OffLattice, KeyError) as e:
            stats["gates_off_lattice"] = stats.get("gates_off_lattice", 0) + 1
            return None, f"{type(e).__name__}: {e}"
    return out, None


def wstr(w):
    return "".join(LET[c] if 0 <= c <= 3 else "?" for c in w)


class Batch:
    """One TLC batch: records (group and diag), with diag records shared by key."""

    def __init__(self):
        self.recs, self.meta, self.dkey = [], [], {}

    def diag(self, n, group, gc, gates, images, ic, src):
        key = json.dumps([n, group, gc, gates, images, ic])
        if key not in self.dkey:
            self.recs.append({"kind": "diag", "n": n, "group": group, "gc": gc, "gates": gates, "images": images, "ic": ic})
            self.meta.append({"src": src})
            self.dkey[key] = len(self.recs)            # 1-based position = tid
        return self.dkey[key]


# ------------------------------------------------------------------------------------------------ exercising the code
def exercise(batch, agg, stats, n, words, coeffs, labels, family, ops, direct_coefs=None):
    """Run every grouping entry point on one input list; append the records to the batch."""
    obs = [ops(tuple(w)) for w in words]
    cnum = [gd_to_number(c) for c in coeffs]
    rec = {"kind": "group", "n": n, "words": [list(w) for w in words], "coeffs": [list(c) for c in coeffs], "calls": []}
    info = {"family": family, "labels": [str(l) for l in labels]}

    def fail(fn, ty, me, e):
        agg.add(f"{family}:{fn}:{ty}:{me}:{type(e).__name__}", f"{fn}({[wstr(w) for w in words]}, {ty}, {me}) raised {type(e).__name__}: {e}",
                {"words": rec["words"], "coeffs": rec["coeffs"], "fn": fn, "type": ty, "method": me, **info})

    qwc_groups = {}
    for ty in TYPES:
        for me in METHODS:
            try:
                res = group_observables(list(obs), list(cnum), grouping_type=ty, method=me)
                groups, cgroups = res
                eg = [[enc_obs(o, labels) for o in g] for g in groups]
                rec["calls"].append({"fn": "group", "ty": ty, "me": me, "groups": [[w for w, _ in g] for g in eg],
                                     "cgroups": [[gd_mul(enc_coef(c), s[1]) for c, s in zip(cg, g)] if len(cg) == len(g) else [enc_coef(c) for c in cg]
                                                 for cg, g in zip(cgroups, eg)] if len(cgroups) == len(eg) else [[]] * (len(eg) + 1),
                                     "idx": [], "gates": [], "images": [], "ic": [], "dref": []})
                stats["calls"] += 1
                stats["groups_with_2plus_members"] += sum(1 for g in groups if len(g) >= 2)
                stats["calls_with_2plus_groups"] += 1 if len(groups) >= 2 else 0
                stats["empty_groups_returned"] += sum(1 for g in groups if len(g) == 0)
                if ty == "qwc":
                    qwc_groups[me] = groups
            except Exception as e:  # noqa: BLE001
                fail("group_observables", ty, me, e)
            try:
                idx = compute_partition_indices(list(obs), grouping_type=ty, method=me)
                rec["calls"].append({"fn": "index", "ty": ty, "me": me, "idx": [[int(i) for i in g] for g in idx], "groups": [], "cgroups": [],
                                     "gates": [], "images": [], "ic": [], "dref": []})
                stats["calls"] += 1
            except Exception as e:  # noqa: BLE001
                fail("compute_partition_indices", ty, me, e)
    # measurement optimisation: partition + diagonalising rotations + diagonal observables + coefficients
    for me in METHODS:
        if not obs:
            continue
        try:
            rot, diag, gco = optimize_measurements(list(obs), list(cnum), "qwc", me)
            idx = [[int(i) for i in g] for g in compute_partition_indices(list(obs), grouping_type="qwc", method=me)]
            call = {"fn": "optimize", "ty": "qwc", "me": me, "idx": idx, "groups": [], "cgroups": [], "gates": [], "images": [], "ic": [], "dref": []}
            ok = len(rot) == len(diag) == len(gco) == len(idx)
            for g in range(len(idx) if ok else 0):
                gates, why = enc_gates(rot[g], labels, stats)
                if gates is None:
                    agg.add(f"{family}:optimize_measurements:gate-not-on-lattice", f"rotation not expressible exactly: {why}", {"words": rec["words"], **info})
                    ok = False
                    break
                im = [enc_obs(o, labels) for o in diag[g]]
                call["gates"].append(gates)
                call["images"].append([w for w, _ in im])
                call["ic"].append([gd_mul(enc_coef(c), s[1]) for c, s in zip(gco[g], im)] if len(gco[g]) == len(im) else [])
                members = [rec["words"][i] for i in idx[g]] if all(0 <= i < len(words) for i in idx[g]) else []
                unit = [[1, 0, 0]] * len(members)
                call["dref"].append(batch.diag(n, members, unit, gates, call["images"][-1], [[1, 0, 0]] * len(call["images"][-1]),
                                               {"fn": "optimize_measurements", "me": me, **info}))
            if ok:
                rec["calls"].append(call)
                stats["calls"] += 1
            elif len(rot) != len(idx) or len(diag) != len(idx) or len(gco) != len(idx):
                agg.add(f"{family}:optimize_measurements:shape", f"optimize_measurements returned {len(rot)} rotations, {len(diag)} groupings, "
                        f"{len(gco)} coefficient groups for a partition into {len(idx)} groups", {"words": rec["words"], **info})
        except Exception as e:  # noqa: BLE001
            fail("optimize_measurements", "qwc", me, e)
    # direct diagonalisation of the qwc groups returned by group_observables (operators as returned)
    for me, groups in qwc_groups.items():
        for g in groups:
            if not g:
                continue
            try:
                gates_ops, new_ops = diagonalize_qwc_pauli_words(list(g))
                add_diag(batch, agg, stats, n, g, gates_ops, new_ops, labels, family, "diagonalize_qwc_pauli_words", me)
            except Exception as e:  # noqa: BLE001
                fail("diagonalize_qwc_pauli_words", "qwc", me, e)
        try:
            gl = [list(g) for g in groups if g]
            rots, diags = diagonalize_qwc_groupings(gl)
            for g, r_, d_ in zip(gl, rots, diags):
                add_diag(batch, agg, stats, n, g, r_, d_, labels, family, "diagonalize_qwc_groupings", me)
        except Exception as e:  # noqa: BLE001
            fail("diagonalize_qwc_groupings", "qwc", me, e)
    # members carrying their own coefficient (SProd): the coefficient must travel to the diagonal observable
    if direct_coefs is not None and "lf" in qwc_groups:
        for g in qwc_groups["lf"]:
            if not g:
                continue
            sg = [qp.s_prod(gd_to_number(direct_coefs[i % len(direct_coefs)]), o) for i, o in enumerate(g)]
            try:
                gates_ops, new_ops = diagonalize_qwc_pauli_words(sg)
                add_diag(batch, agg, stats, n, sg, gates_ops, new_ops, labels, family, "diagonalize_qwc_pauli_words(SProd)", "lf")
                stats["diag_with_member_coefficients"] += 1
            except Exception as e:  # noqa: BLE001
                fail("diagonalize_qwc_pauli_words(SProd)", "qwc", "lf", e)
    batch.recs.append(rec)
    batch.meta.append(info)


def add_diag(batch, agg, stats, n, members, gates_ops, new_ops, labels, family, fn, me):
    gates, why = enc_gates(gates_ops, labels, stats)
    mem = [enc_obs(o, labels) for o in members]
    if gates is None:
        agg.add(f"{family}:{fn}:gate-not-on-lattice", f"rotation not expressible exactly: {why}", {"group": [wstr(w) for w, _ in mem]})
        return
    im = [enc_obs(o, labels) for o in new_ops]
    batch.diag(n, [w for w, _ in mem], [c for _, c in mem], gates, [w for w, _ in im], [c for _, c in im],
               {"fn": fn, "me": me, "family": family, "labels": [str(l) for l in labels]})
    stats["diag_calls"] += 1
    if any(c in (1, 2) for w, _ in mem for c in w):
        stats["diag_calls_needing_rotations"] += 1


# ------------------------------------------------------------------------------------------------ input families
def all_words(n):
    return list(itertools.product(range(4), repeat=n))


def family_exhaustive(n, kmax):
    ws = all_words(n)
    for k in range(kmax + 1):
        yield from itertools.combinations(ws, k)


def run_batch(name, batch):
    wd = lib.workdir(PID, name)
    (wd / "traces.json").write_text(json.dumps(batch.recs))
    r = lib.run_tlc("Trace_Grouping", lib.cfg(constants={"M": M, "NTRACES": len(batch.recs)}), wd, env={"TRACE_FILE": str(wd / "traces.json")},
                    timeout=3000)
    lib.require_ok(r, f"Trace_Grouping {name}")
    verd = {t[1] - 1: (t[2], t[3]) for t in r.tuples if t[0] == "V"}
    if len(verd) != len(batch.recs):
        raise lib.MachineryError(f"verdicts are not total: {len(verd)} of {len(batch.recs)}")
    return verd, r


def judge(batch, verd, agg):
    n_ok = 0
    for i, rec in enumerate(batch.recs):
        j, clause = verd[i]
        if clause == "ok":
            n_ok += 1
            continue
        m = batch.meta[i]
        if rec["kind"] == "diag":
            src = m["src"] if "src" in m else m
            if clause == "coefficient-changed" and len(rec["gc"]) == len(rec["ic"]) == len(rec["group"]) and all(
                    not any(w) for w, a, b in zip(rec["group"], rec["gc"], rec["ic"]) if a != b):
                clause = "coefficient-changed:identity-member"       # only identity members lost their coefficient
            agg.add(f"{src.get('family', '?')}:{src.get('fn', 'diagonalize')}:{clause}",
                    f"{src.get('fn')} on group {[wstr(w) for w in rec['group']]} (coefficients {rec['gc']}): gates {[(g['g'], g['w'], g['p']) for g in rec['gates']]} "
                    f"-> {[wstr(w) for w in rec['images']]} (coefficients {rec['ic']}): {clause}", {"record": rec, **src})
        else:
            c = rec["calls"][j - 1]
            fn = {"group": "group_observables", "index": "compute_partition_indices", "optimize": "optimize_measurements"}[c["fn"]]
            out = c["groups"] if c["fn"] == "group" else c["idx"]
            agg.add(f"{m['family']}:{fn}:{c['ty']}:{c['me']}:{clause}",
                    f"{fn}({[wstr(w) for w in rec['words']]}, coefficients {rec['coeffs']}, {c['ty']}, {c['me']}) -> "
                    f"{[[wstr(w) for w in g] for g in out] if c['fn'] == 'group' else out} {c.get('cgroups') or ''}: {clause}",
                    {"words": rec["words"], "coeffs": rec["coeffs"], "call": c, **m})
    return n_ok


def op_factory(labels, identity="wire"):
    cache = {}

    def ops(w):
        if w not in cache:
            cache[w] = make_op(w, labels, identity)
        return cache[w]
    return ops


# ------------------------------------------------------------------------------------------------ run
def run(tier, seed):
    rng = random.Random(seed)
    quick = tier == "quick"
    agg = Agg()
    stats = {k: 0 for k in ("calls", "groups_with_2plus_members", "calls_with_2plus_groups", "empty_groups_returned", "diag_calls",
                            "diag_calls_needing_rotations", "diag_with_member_coefficients", "inputs_with_duplicates", "inputs_with_identity")}
    # ---- (M) self-check of the relational specification
    ks = "<<4, 2>>" if quick else "<<4, 3, 2>>"
    gen = lib.run_tlc_mc("GroupingGen", {"KS": ks}, lib.workdir(PID, "gen"), constants={"M": M, "NWG": 2 if quick else 3}, invariants=["Sound"],
                         timeout=3000)
    if gen.invariant_violated:
        raise lib.MachineryError("the relational specification fails its own sanity laws: " + gen.out[-1500:])
    lib.require_ok(gen, "GroupingGen")
    ref = {(c["n"], json.dumps(c["words"])): c["ref"] for c in gen.json_lines}
    if len(ref) < 150:
        raise lib.MachineryError("GroupingGen emitted too few cases")
    # ---- (T) inputs
    batch = Batch()
    inputs = []
    if quick:
        exh = [(1, 4), (2, 2)]
        samp = [(2, 3, 70), (2, 4, 70), (3, 2, 50), (3, 3, 60), (3, 4, 70)]
        nseed, nwl = 150, 40
    else:
        exh = [(1, 4), (2, 4), (3, 2)]
        samp = [(3, 3, 4000), (3, 4, 4000)]
        nseed, nwl = 4000, 300
    for n, k in exh:
        for s in family_exhaustive(n, k):
            inputs.append(("exhaustive", n, list(s), None))
    for n, k, cnt in samp:
        ws = all_words(n)
        seen = set()
        while len(seen) < cnt:
            s = tuple(sorted(rng.sample(ws, k)))
            if s not in seen:
                seen.add(s)
                inputs.append(("sampled-sets", n, list(s), None))
    for _ in range(nseed):                     # multisets: duplicates, identities, random order, up to 6 words on up to 4 wires
        n = rng.choice([1, 2, 2, 3, 3, 3] + ([] if quick else [4, 4]))
        ws = all_words(n)
        pool = rng.sample(ws, min(len(ws), rng.randint(1, 4)))
        k = rng.randint(1, 5 if quick else 6)
        s = [rng.choice(pool) if rng.random() < 0.5 else rng.choice(ws) for _ in range(k)]
        if rng.random() < 0.3:
            s[rng.randrange(k)] = (0,) * n
        inputs.append(("seeded-multisets", n, s, "coefs"))
    for _ in range(nwl):                       # identities without wires (qp.Identity()) among the observables
        n = rng.choice([1, 2, 2, 3])
        ws = all_words(n)
        k = rng.randint(1, 4)
        s = [rng.choice(ws) for _ in range(k)]
        s[rng.randrange(k)] = (0,) * n
        inputs.append(("wireless-identity", n, s, None))
    label_sets = {}
    CHUNK = 3000
    n_real = n_ok = neg = pos = 0
    tl, all_recs, all_verd = [], [], []
    for off in range(0, len(inputs), CHUNK):
        batch = Batch()
        for fam, n, s, cf in inputs[off:off + CHUNK]:
            if fam in ("exhaustive", "sampled-sets"):
                L = list(range(n))
                coeffs = [[i + 1, 0, 0] for i in range(len(s))]
                direct = None
            else:
                L = labels_for(rng, n)[:n]
                coeffs = rng.sample([[1, 0, 0], [-1, 0, 0], [1, 0, 1], [3, 0, 2], [-5, 0, 1], [2, 0, 0], [7, 0, 3], [-3, 0, 0], [5, 0, 2]], len(s))
                direct = [[1, 0, 1], [-2, 0, 0], [0, 1, 0], [3, 0, 2]] if cf else None
            key = (fam == "wireless-identity", n, tuple(str(l) for l in L))
            if key not in label_sets:
                label_sets[key] = op_factory(L, "wireless" if fam == "wireless-identity" else "wire")
            if len(set(s)) < len(s):
                stats["inputs_with_duplicates"] += 1
            if any(not any(w) for w in s):
                stats["inputs_with_identity"] += 1
            exercise(batch, agg, stats, n, s, coeffs, L, fam, label_sets[key], direct)
        nb = len(batch.recs)
        # controls (hand-written, independent of the implementation): accepted / rejected with the expected clause (first batch)
        if off == 0:
            for name, c, want in controls(nb):
                batch.recs.append(c)
                batch.meta.append({"family": "control", "ctrl": name, "want": want})
        verd, r = run_batch(f"trace_{off}", batch)
        tl.append(r)
        for i in range(nb, len(batch.recs)):
            if verd[i][1] != batch.meta[i]["want"]:
                raise lib.MachineryError(f"control '{batch.meta[i]['ctrl']}': Trace_Grouping answered {verd[i][1]!r}, expected {batch.meta[i]['want']!r}")
            if batch.meta[i]["want"] == "ok":
                pos += 1
            else:
                neg += 1
        real = Batch()
        real.recs, real.meta = batch.recs[:nb], batch.meta[:nb]
        n_ok += judge(real, verd, agg)
        n_real += nb
        all_recs += real.recs
        all_verd += [verd[i] for i in range(nb)]

    class _R:
        recs = all_recs
    real, verd = _R, all_verd
    # drift: number of groups vs the first-fit reference (a heuristic may legitimately differ)
    drift = 0
    compared = 0
    for rec in real.recs:
        if rec["kind"] != "group":
            continue
        rf = ref.get((rec["n"], json.dumps(rec["words"])))
        if rf is None:
            continue
        for c in rec["calls"]:
            if c["fn"] == "index":
                compared += 1
                if len(c["idx"]) != len(rf[TYPES.index(c["ty"])]):
                    drift += 1
    for need in ("groups_with_2plus_members", "calls_with_2plus_groups", "diag_calls_needing_rotations", "diag_with_member_coefficients",
                 "inputs_with_duplicates", "inputs_with_identity"):
        if not stats[need]:
            raise lib.MachineryError(f"vacuity: no case exercised '{need}'")
    n_group = sum(1 for r_ in real.recs if r_["kind"] == "group")
    n_diag = n_real - n_group
    nontriv = {json.dumps([r_["n"], r_["words"]]) for i, r_ in enumerate(real.recs) if r_["kind"] == "group" and verd[i][1] == "ok"
               and any(c["fn"] == "group" and any(len(g) >= 2 for g in c["groups"]) and len(c["groups"]) >= 2 for c in r_["calls"])}
    samples = []
    for r_ in real.recs:
        if r_["kind"] == "group" and len(r_["words"]) >= 4 and len(samples) < 2:
            c = next((c for c in r_["calls"] if c["fn"] == "group" and c["ty"] == "qwc" and len(c["groups"]) >= 2), None)
            if c:
                samples.append({"input": [wstr(w) for w in r_["words"]], "type": c["ty"], "method": c["me"],
                                "groups": [[wstr(w) for w in g] for g in c["groups"]], "coefficient_groups": c["cgroups"]})
    for r_ in real.recs:
        if r_["kind"] == "diag" and len(r_["gates"]) >= 2 and len(samples) < 4:
            samples.append({"diagonalize": [wstr(w) for w in r_["group"]], "gates": [(g["g"], g["w"], g["p"]) for g in r_["gates"]],
                            "images": [wstr(w) for w in r_["images"]]})
    cov = {"states": gen.distinct + sum(r.distinct for r in tl), "transitions": gen.generated + sum(r.generated for r in tl),
           "traces_validated_against_impl": n_real, "traces_ok": n_ok, "evaluations": stats["calls"] + stats["diag_calls"],
           "distinct_nontrivial": len(nontriv),
           "rule": "distinct input lists for which some group_observables call returned >= 2 groups one of which has >= 2 members, all of whose "
                   "recorded calls (12 group_observables, 12 compute_partition_indices, 4 optimize_measurements) TLC accepted",
           "samples": samples, "exhaustive": True,
           "exhaustive_part": "all sets of <= k distinct words on n wires for (n, k) in " + str(exh) + ", every grouping type x colouring method",
           "sampled_part": f"sets {samp} (n, k, count); {nseed} seeded multisets (duplicates, identities, shuffled, random labels, <= "
                           f"{5 if quick else 6} words, <= {3 if quick else 4} wires); {nwl} inputs with wire-less identities",
           "input_lists": n_group, "distinct_diagonalisation_records": n_diag, "spec_selfcheck_cases": len(ref),
           "negative_controls_rejected": neg, "positive_controls_accepted": pos, "model_drift": drift, "model_drift_compared": compared,
           "model_drift_meaning": "number of groups differs from the specification's first-fit reference grouping (allowed: heuristics)",
           "counts": dict(sorted(stats.items())),
           "tlc": {"selfcheck": {"generated": gen.generated, "distinct": gen.distinct, "wall_s": round(gen.wall_s, 1), "invariant": "Sound"},
                   "trace": [{"generated": r.generated, "distinct": r.distinct, "wall_s": round(r.wall_s, 1)} for r in tl]}}
    return CheckResult(coverage=cov, violations=agg.violations(),
                       assumptions=["observables are Pauli words given as Identity / X / Y / Z / Prod (and SProd for the direct diagonalisation calls); "
                                    "returned operators are read through their pauli_rep",
                                    "optimize_measurements does not return the members of its groups: they are taken from compute_partition_indices "
                                    "with the same arguments (deterministic colouring), the link is re-checked by TLC through the coefficients",
                                    "the diagonalising gates are products of reference-table gates, hence unitary: U P U^dagger = D is decided as U P = D U",
                                    "empty groups in a returned partition are counted (empty_groups_returned), not judged"])


def controls(base):
    """Hand-written control records (independent of the implementation): (name, record, expected clause).  `base` = number of
    records already in the file; the two helper diag records are referenced by their 1-based positions base+1, base+2."""
    X, Y, Z, I1 = [1], [2], [3], [0]
    one, two = [1, 0, 0], [2, 0, 0]
    ry = {"g": "RY", "w": [1], "p": [-1], "x": [], "m": [], "mods": []}
    ryp = dict(ry, p=[1])
    rx2 = {"g": "RX", "w": [2], "p": [1], "x": [], "m": [], "mods": []}

    def grp(n, words, coeffs, ty, groups, cgroups):
        return {"kind": "group", "n": n, "words": words, "coeffs": coeffs,
                "calls": [{"fn": "group", "ty": ty, "me": "ctrl", "groups": groups, "cgroups": cgroups, "idx": [], "gates": [], "images": [], "ic": [], "dref": []}]}

    def idx(n, words, ty, ix):
        return {"kind": "group", "n": n, "words": words, "coeffs": [[i + 1, 0, 0] for i in range(len(words))],
                "calls": [{"fn": "index", "ty": ty, "me": "ctrl", "idx": ix, "groups": [], "cgroups": [], "gates": [], "images": [], "ic": [], "dref": []}]}

    def dg(n, group, gc, gates, images, ic):
        return {"kind": "diag", "n": n, "group": group, "gc": gc, "gates": gates, "images": images, "ic": ic}

    def opt(ic, dref):
        return {"kind": "group", "n": 1, "words": [X, Z], "coeffs": [one, two],
                "calls": [{"fn": "optimize", "ty": "qwc", "me": "ctrl", "idx": [[0], [1]], "groups": [], "cgroups": [], "gates": [[ry], []],
                           "images": [[Z], [Z]], "ic": ic, "dref": dref}]}
    out = [("helper:diag X", dg(1, [X], [one], [ry], [Z], [one]), "ok"),
           ("helper:diag Z", dg(1, [Z], [one], [], [Z], [one]), "ok"),
           ("accept:optimize", opt([[one], [two]], [base + 1, base + 2]), "ok"),
           ("accept:group qwc", grp(2, [[1, 1], [2, 2], [1, 0]], [one, two, [3, 0, 0]], "qwc", [[[1, 1], [1, 0]], [[2, 2]]], [[one, [3, 0, 0]], [two]]), "ok"),
           ("accept:group anticommuting", grp(1, [X, Y, X], [one, two, [3, 0, 0]], "anticommuting", [[X, Y], [X]], [[[3, 0, 0], two], [one]]), "ok"),
           ("accept:diag XY,YZ with coefficients", dg(2, [[1, 2], [1, 0]], [[1, 0, 1], [0, 1, 0]], [ry, rx2], [[3, 3], [3, 0]], [[1, 0, 1], [0, 1, 0]]), "ok"),
           ("reject:group qwc XX with YY", grp(2, [[1, 1], [2, 2]], [one, two], "qwc", [[[1, 1], [2, 2]]], [[one, two]]), "relation-violated"),
           ("reject:group commuting X with Z", grp(1, [X, Z], [one, two], "commuting", [[X, Z]], [[one, two]]), "relation-violated"),
           ("reject:group anticommuting X with X", grp(1, [X, X], [one, two], "anticommuting", [[X, X]], [[one, two]]), "relation-violated"),
           ("reject:group anticommuting X with I", grp(1, [X, I1], [one, two], "anticommuting", [[X, I1]], [[one, two]]), "relation-violated"),
           ("reject:group coefficients exchanged", grp(1, [X, Z], [one, two], "qwc", [[X], [Z]], [[two], [one]]), "coefficient-detached"),
           ("reject:group member dropped", grp(1, [X, Z], [one, two], "qwc", [[X]], [[one]]), "not-a-partition"),
           ("reject:group member duplicated", grp(1, [X, Z], [one, two], "qwc", [[X], [Z], [X]], [[one], [two], [one]]), "not-a-partition"),
           ("reject:group word altered", grp(1, [X, Z], [one, two], "qwc", [[Y], [Z]], [[one], [two]]), "not-a-partition"),
           ("reject:index position duplicated", idx(1, [X, Z], "qwc", [[0, 0], [1]]), "not-a-partition"),
           ("reject:index position missing", idx(1, [X, Z], "qwc", [[0]]), "not-a-partition"),
           ("reject:index commuting X with Z", idx(1, [X, Z], "commuting", [[0, 1]]), "relation-violated"),
           ("reject:diag rotation inverted", dg(1, [X], [one], [ryp], [Z], [one]), "not-diagonalized"),
           ("reject:diag rotation missing", dg(1, [X], [one], [], [Z], [one]), "not-diagonalized"),
           ("reject:diag wrong rotation axis", dg(1, [Y], [one], [ry], [Z], [one]), "not-diagonalized"),
           ("reject:diag image not diagonal", dg(1, [X], [one], [ry], [X], [one]), "image-not-Z-type"),
           ("reject:diag coefficient changed", dg(1, [X], [[1, 0, 1]], [ry], [Z], [one]), "coefficient-changed"),
           ("reject:diag two-wire sign", dg(2, [[1, 1]], [one], [ry, dict(ryp, w=[2])], [[3, 3]], [one]), "not-diagonalized"),
           ("reject:optimize coefficients exchanged", opt([[two], [one]], [base + 1, base + 2]), "coefficient-changed"),
           ("reject:optimize diag reference exchanged", opt([[one], [two]], [base + 2, base + 1]), "diag-reference-mismatch")]
    return out
