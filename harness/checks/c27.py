"""C27 simulator devices agree (analytic mode).

REPLAY (spec -> code).  The same seeded generator as C26 (harness/devsim.py) produces circuits over the reference gate table;
TapeEval.tla computes, exactly in the cyclotomic ring, the final state, every requested Pauli-word expectation and
probability vector.  The driver executes the same tape on default.mixed, default.tensor (method mps with
max_bond_dim >= 2^ceil(n/2) and method tn), reference.qubit and - for the Clifford pool - default.clifford, each restricted
to the measurements the device documents / declares, and compares every returned number with TLC's value.  default.qubit
is NOT the oracle (it is the subject of C26): two devices that agree with the exact value agree with each other.

TRACE (code -> spec) for null.qubit, which only promises SHAPES: the nesting / array shapes of what null.qubit returns are
recorded per request and judged by Trace_ResultShape.tla, which recomputes the tree from the request alone
(spec/sys/ResultShape.tla, written from the return type specification; no device occurs in it).  The tree of the value
TLC's oracle predicts for the same request is sent through the same spec as a self-check of the two oracles.

An operation outside a device's native set may be decomposed or refused: a raised refusal (DeviceError, NotImplementedError,
...) is counted, never flagged; a returned number that differs from the exact value is a violation, and so is a crash
(any other exception class) on a circuit the device accepted.  Violation keys are `<device>:<measurement kind>:<tag>`; the
tag names the recognised cause when the driver can recognise one (see `diagnose`), else `mismatch` / `shape` / `crash:<class>`."""
import copy
import json
import random
import threading
import time

import numpy as np

import pennylane as qp

from .. import devsim, lib, tapeeval
from ..codec import decode_gate, rec
from ..lib import CheckResult, Violation

M = 4                      # angle lattice 4*pi/16
TOL = 1e-8
NB = 3                     # broadcast size

# --- per device: the measurement kinds it documents / declares for analytic execution --------------------------------
# default.mixed      validate_measurements(accepted_analytic_measurement): every state measurement; qp.state() is documented
#                    to return the density matrix on a mixed-state device
# default.tensor     docstring: "the supported measurement types are expectation values, variances, and state measurements"
# reference.qubit    validate_measurements(): every StateMeasurement
# default.clifford   _analytical_measurement_map.  qp.state() is a state vector only with tableau=False ("/sv" below); stim does
#                    not track the global phase of the circuit and hands out single-precision vectors, so state vectors are compared
#                    up to a phase and state vectors / density matrices at 1e-6
# null.qubit         everything default.qubit accepts (it borrows its preprocessing); shapes only
ALL = {"expval", "var", "ham", "probs", "state", "dm", "purity", "vn", "mi"}
MEAS = {"default.mixed": ALL, "default.tensor/mps": {"expval", "var", "ham", "state"}, "default.tensor/tn": {"expval", "var", "ham", "state"},
        "reference.qubit": ALL, "default.clifford": ALL - {"state"}, "default.clifford/sv": {"state"}, "null.qubit": ALL}
GENERAL = ["default.mixed", "default.tensor/mps", "default.tensor/tn", "reference.qubit", "null.qubit"]
CLIFF = ["default.clifford", "default.clifford/sv", "default.mixed", "reference.qubit", "default.tensor/mps"]
# exception classes that are a refusal ("not supported"), by class name
REFUSAL = {"DeviceError", "NotImplementedError", "DecompositionUndefinedError", "WireError", "QuantumFunctionError",
           "DecompositionError", "MatrixUndefinedError", "SparseMatrixUndefinedError", "DiagGatesUndefinedError",
           "TermsUndefinedError", "GeneratorUndefinedError", "EigvalsError"}

C1 = ["PauliX", "PauliY", "PauliZ", "Hadamard", "S", "Identity"]
C2 = ["CNOT", "CY", "CZ", "SWAP", "ISWAP"]


def tree_of(x):
    """abstract shape tree of a returned object (ResultShape.tla: T tuple, A array of shape s)"""
    if isinstance(x, (tuple, list)):
        return {"k": "T", "s": [], "c": [tree_of(y) for y in x]}
    if isinstance(x, dict):
        return {"k": "D", "s": [], "c": []}
    shape = tuple(x.shape) if hasattr(x, "shape") else np.shape(x)
    return {"k": "A", "s": [int(d) for d in shape], "c": []}


def show(tr):
    if tr["k"] == "T":
        return "(" + ", ".join(show(c) for c in tr["c"]) + ("," if len(tr["c"]) == 1 else "") + ")"
    return "dict" if tr["k"] == "D" else "A" + str(tr["s"]).replace(" ", "")


def clifford_gate(rng, n):
    """Clifford gates of the reference table: natively mapped ones, adjoint / power wrappers, global phases, and (rarely) Clifford
    gates outside the device's native map (SX, ECR, rotations by multiples of pi/2), which the device may decompose or refuse."""
    r = rng.random()
    if r < 0.06:
        return rec("GlobalPhase", [1], [rng.randrange(1 << M)])
    if r < 0.08:
        return rec(rng.choice(["RX", "RY", "RZ", "PhaseShift"]), [rng.randint(1, n)], [2 * rng.randrange(8)])
    if r < 0.10:
        return rec("SX", [rng.randint(1, n)])
    if r < 0.12 and n >= 2:
        return rec("ECR", rng.sample(range(1, n + 1), 2))
    if r < 0.6 or n < 2:
        g = rec(rng.choice(C1), [rng.randint(1, n)])
    else:
        g = rec(rng.choice(C2), rng.sample(range(1, n + 1), 2))
    q = rng.random()
    if q < 0.15:
        g["mods"] = [{"t": "adj"}]
    elif q < 0.20:
        g["mods"] = [{"t": "pow", "z": rng.choice([2, 2, -2, -2, 3, -1])}]
    elif q < 0.25 and g["g"] in ("PauliX", "PauliY", "PauliZ") and n >= 2:
        free = [w for w in range(1, n + 1) if w not in g["w"]]
        g["w"] = [rng.choice(free)] + g["w"]
        g["mods"] = [{"t": "ctrl", "cv": [rng.randint(0, 1)]}]
    return g


def gen_cases(tier, seed):
    rng = random.Random(2700 + seed)
    ngen, ncl = (90, 60) if tier == "quick" else (1000, 600)
    cases = []
    for i in range(ngen + ncl):
        cl = i >= ngen
        n = rng.choice([1, 2, 2, 3, 3, 3, 4, 4, 5])
        L = rng.randint(1, 8)
        circ = [clifford_gate(rng, n) for _ in range(L)] if cl else devsim.random_circuit(rng, n, M, L)
        prep = [rng.randint(0, 1) for _ in range(n)] if rng.random() < 0.2 else None
        meas = devsim.random_meas(rng, n)
        if rng.random() < 0.3:
            meas.append(("state",))
        if cl and rng.random() < 0.6:        # Z-type words: expectation -1 / +1 is frequent on stabiliser states (exercises <Q>^2 != <Q>)
            zw = [3 * rng.randint(0, 1) for _ in range(n)]
            if any(zw) and (rng.choice(["var", "expval"]), zw) not in meas:
                meas.insert(0, (rng.choice(["var", "var", "expval"]), zw))
        bidx = None
        if not cl and rng.random() < 0.15:
            cand = [k for k, g in enumerate(circ) if len(g["p"]) == 1 and not g["mods"] and g["g"] != "GlobalPhase"]
            if cand:
                bidx = (rng.choice(cand), [rng.randrange(16) for _ in range(NB)])
        cases.append({"n": n, "circ": circ, "prep": prep, "meas": meas, "labels": devsim.labels_for(rng, n), "batch": bidx,
                      "devwires": rng.random() < 0.7, "pool": "clifford" if cl else "general"})
    return cases


def make_device(name, labels, n, devwires):
    kw = {"wires": labels} if devwires else {}
    if name == "default.tensor/mps":
        return qp.device("default.tensor", method="mps", max_bond_dim=max(2, 1 << ((n + 1) // 2)), **kw)
    if name == "default.tensor/tn":
        return qp.device("default.tensor", method="tn", **kw)
    if name == "default.clifford/sv":
        return qp.device("default.clifford", tableau=False, **kw)
    return qp.device(name, **kw)


def build_ops(c):
    labels = c["labels"]
    ops = []
    if c["prep"] is not None:
        ops.append(qp.BasisState(np.array(c["prep"]), wires=labels))
    gates = [decode_gate(g, M, labels) for g in c["circ"]]
    if c["batch"] is not None:
        k, angs = c["batch"]
        arr = np.array([lib.angle_of(a, M) for a in angs])
        gates[k] = (qp.PauliRot(arr, gates[k].hyperparameters["pauli_word"], wires=gates[k].wires) if c["circ"][k]["g"] == "PauliRot"
                    else type(gates[k])(arr, wires=gates[k].wires))
    return ops + gates


def fallback(c):
    return ("expval", [3] + [0] * (c["n"] - 1))


def meas_for(dev, c):
    """the measurements of the case this device is asked for ([] = the device is not run on this case)"""
    ms = [m for m in c["meas"] if m[0] in MEAS[dev] and (c["devwires"] or m[0] != "state")]
    if dev == "default.clifford/sv":
        return ms
    return ms or [fallback(c)]


def restrict(res, all_meas, meas):
    """TapeEval result for the full request list -> result record laid out for the sub-list `meas`"""
    _, idx_all = devsim.tlc_meas(all_meas)
    out = [res["meas"][0]]
    for m in meas:
        kind, pos = idx_all[all_meas.index(m)]
        if kind in ("pw", "probs"):
            out.append(res["meas"][pos])
        elif kind == "ham":
            out += [res["meas"][pos + t] for t in range(len(m[1]))]
    return {"meas": out, "bw": res["bw"]}


def expected_for(dev, m, e):
    """device-specific documented presentation of the exact value"""
    if dev == "default.mixed" and m[0] == "state":
        psi = np.asarray(e).reshape(-1)
        return np.outer(psi, psi.conj())
    return e


def up_to_phase(g, x, tol):
    g, x = np.asarray(g, dtype=complex), np.asarray(x, dtype=complex)
    if g.shape != x.shape:
        return False
    k = int(np.argmax(np.abs(x)))
    if abs(x.reshape(-1)[k]) < 1e-6:
        return bool(np.allclose(g, 0, atol=tol, rtol=0))
    if abs(g.reshape(-1)[k]) < 1e-6:
        return False
    return bool(np.allclose(g * (x.reshape(-1)[k] / g.reshape(-1)[k]), x, atol=tol, rtol=0))


def agrees(dev, m, got, e):
    if dev.startswith("default.clifford") and m[0] == "state":           # stim drops the global phase; single precision
        return up_to_phase(np.asarray(got).reshape(-1), np.asarray(e).reshape(-1), 1e-6)
    if dev.startswith("default.clifford") and m[0] == "dm":              # computed from stim's single-precision state vector
        return devsim.close(got, e, 1e-6)
    return devsim.close(got, e, TOL)


def native_tapes(dev, c, tape):
    """what the device's own preprocessing turns the tape into (a diagnosis aid)"""
    d = make_device(dev, c["labels"], c["n"], c["devwires"])
    return list(d.preprocess()[0]([tape])[0])


def tape_order_axes(c, tape):
    """axis permutation `wires in order of first use, unused device wires after`: the register a device builds when it relabels
    the wires with map_to_standard_wires (operation wires, then measurement-only wires) instead of using its own wire order"""
    opw = [w for op in tape.operations for w in op.wires]
    pos = []
    for w in opw + list(tape.wires):
        if c["labels"].index(w) not in pos:
            pos.append(c["labels"].index(w))
    return pos + [i for i in range(c["n"]) if i not in pos]


def has_paulirot_mpo(tapes):
    """a Pauli rotation on >= 3 wires: default.tensor applies it as a matrix product operator"""
    return any(op.name in ("PauliRot", "MultiRZ") and len(op.wires) >= 3 for t in tapes for op in t.operations)


def diagnose(dev, c, m, got, e, v, ctx):
    """tag of a disagreement; recognisable causes get their own tag so that each can be tracked separately"""
    g_, e_ = np.asarray(got), np.asarray(e)
    n = c["n"]
    if g_.shape != e_.shape:
        return "broadcast-shape" if c["batch"] is not None else "shape"
    psi = ctx["psi"]
    try:
        if m[0] == "state" and dev != "default.mixed":
            for t2 in native_tapes(dev, c, ctx["tape"])[:1] + [ctx["tape"]]:
                alt = np.transpose(psi.reshape([2] * n), tape_order_axes(c, t2)).reshape(-1)
                if up_to_phase(g_.reshape(-1), alt, 1e-6):
                    return "tape-wire-order"
        if dev == "default.clifford" and m[0] == "dm":
            t = psi.reshape([2] * n)
            keep = [w - 1 for w in m[1]]
            t = np.transpose(t, keep + [i for i in range(n) if i not in keep]).reshape(1 << len(keep), -1)
            if up_to_phase(g_, t @ t.T, 1e-6):
                return "unconjugated"
        if dev == "reference.qubit" and m[0] in ("vn", "mi") and list(ctx["tape"].wires) != list(range(len(ctx["tape"].wires))):
            return "nonstandard-wires"
        if dev == "default.clifford" and m[0] == "mi":
            sa, sb = (devsim.entropy(devsim.reduced_dm(psi, w, n)) for w in (m[1], m[2]))
            if abs(float(g_) - (sa + sb)) < 1e-8:
                return "entropy-sum"
        if dev == "default.tensor/mps" and has_paulirot_mpo(native_tapes(dev, c, ctx["tape"])):
            return "paulirot-mpo"
    except Exception:  # noqa: BLE001 - a diagnosis aid only
        pass
    return "mismatch"


def crash_tag(dev, c, tape):
    tags = ""
    try:
        if dev == "default.tensor/mps" and has_paulirot_mpo(native_tapes(dev, c, tape)):
            tags += ":paulirot-mpo"
    except Exception:  # noqa: BLE001 - a diagnosis aid only
        pass
    if list(tape.wires) != list(range(len(tape.wires))):
        tags += ":nonstandard-wires"
    if c["batch"] is not None:
        tags += ":broadcast"
    return tags


def shape_req(c, meas, obs):
    def mk(m):
        k = m[0]
        if k in ("expval", "var", "ham"):
            return {"kind": "expval" if k != "var" else "var", "w": 0}
        if k == "probs":
            return {"kind": "probs", "w": len(m[1])}
        if k == "state":
            return {"kind": "state", "w": 0}
        if k == "dm":
            return {"kind": "dm", "w": len(m[1])}
        if k == "purity":
            return {"kind": "purity", "w": 0}
        return {"kind": "vnentropy", "w": 0}          # vn_entropy / mutual_info: a scalar
    return {"n": c["n"], "tapes": [{"shots": [], "meas": [mk(m) for m in meas], "b": NB if c["batch"] is not None else 0}],
            "args": [], "wrap": False, "ps": [], "what": "res", "obs": obs}


def is_refusal(exc):
    cls = type(exc).__name__
    return cls in REFUSAL or (cls == "ValueError" and "Gate not found" in str(exc))       # stim has no gate of that name


def replay(path, tier="quick", seed=0):
    """re-run the case of a replay file on the device it names"""
    r = json.loads(open(path).read())["replay"]
    c = r["case"]

    def tup(m):
        if m[0] == "ham":
            return ("ham", [(float(co), list(pw)) for co, pw in m[1]])
        return tuple(m)
    c["meas"] = [tup(m) for m in c["meas"]]
    c["batch"] = tuple(c["batch"]) if c["batch"] else None
    return run(tier, seed, _cases=[c], _only=[r["device"]])


def run(tier, seed, _cases=None, _only=None):
    cases = _cases if _cases is not None else gen_cases(tier, seed)
    # ---------------------------------------------------------------- exact oracle (TLC), running beside the device executions
    tcases, owner = [], []
    for ci, c in enumerate(cases):
        req, _ = devsim.tlc_meas(c["meas"] + [fallback(c)])
        pre = [rec("PauliX", [i + 1]) for i, b in enumerate(c["prep"] or []) if b]
        for v in ([None] if c["batch"] is None else list(range(NB))):
            circ = [dict(g) for g in c["circ"]]
            if v is not None:
                circ[c["batch"][0]] = dict(circ[c["batch"][0]], p=[c["batch"][1][v]])
            tcases.append({"n": c["n"], "ops": pre + circ, "meas": req})
            owner.append((ci, v))
    box = {}

    def oracle():
        try:
            box["res"] = tapeeval.evaluate("C27", tcases, M)
        except BaseException as e:  # noqa: BLE001 - re-raised in the main thread
            box["err"] = e
    th = threading.Thread(target=oracle)
    th.start()

    # ---------------------------------------------------------------- run the real devices
    not_covered, runs, t_dev = {}, [], {}
    for ci, c in enumerate(cases):
        ops = build_ops(c)
        for dev in (CLIFF if c["pool"] == "clifford" else GENERAL):
            if dev in not_covered or (_only is not None and dev not in _only):
                continue
            if _cases is None and c["pool"] == "clifford" and not dev.startswith("default.clifford") and ci % 3:
                continue                     # the other devices see a third of the Clifford pool
            meas = meas_for(dev, c)
            if not meas:
                continue
            t0 = time.process_time()
            try:
                d = make_device(dev, c["labels"], c["n"], c["devwires"])
            except ImportError as e:
                not_covered[dev] = f"{type(e).__name__}: {str(e)[:120]}"
                continue

            def ex(ms):
                tape = qp.tape.QuantumScript(ops, devsim.pl_measurements(ms, c["labels"]))
                try:
                    return tape, qp.execute([tape], d, diff_method=None)[0], None
                except Exception as e:  # noqa: BLE001 - classified below
                    return tape, None, e
            tape, out, exc = ex(meas)
            if exc is not None and not is_refusal(exc) and len(meas) > 1:
                for m in meas:             # find the measurement(s) the crash belongs to; the others are still compared
                    runs.append((ci, dev, [m]) + ex([m]) + (False,))
            else:
                runs.append((ci, dev, meas, tape, out, exc, False))
            if dev.startswith("default.tensor") and ci % 5 == 0:
                runs.append((ci, dev, [("probs", [1])]) + ex([("probs", [1])]) + (True,))    # documented as unsupported: to be refused
            t_dev[dev] = t_dev.get(dev, 0.0) + time.process_time() - t0
    th.join()
    if "err" in box:
        raise box["err"]
    res, stats = box["res"]
    by_case = {}
    for (ci, v), r in zip(owner, res):
        by_case.setdefault(ci, {})[v] = r

    # ---------------------------------------------------------------- compare
    viol, samples, nontriv, raised = [], [], set(), {}
    per_dev = {d: {"executed": 0, "compared": 0, "refused": 0, "circuits_agreeing": 0} for d in MEAS}
    kinds_cmp, gates_seen, shape_recs, shape_owner = {}, {}, [], []
    probes_refused = 0
    for ci, dev, meas, tape, out, exc, probe in runs:
        c = cases[ci]
        n = c["n"]
        full = c["meas"] + [fallback(c)]
        opsdesc = [str(o) for o in tape.operations]
        where = f"{dev} (device wires={c['labels'] if c['devwires'] else None})"
        st = per_dev[dev]
        if probe:
            if exc is not None and is_refusal(exc):
                probes_refused += 1
            elif exc is None:
                viol.append(Violation(key=f"{dev}:probs:answered", detail=f"{where} answered qp.probs (documented as unsupported) with {str(out)[:200]}",
                                      replay={"case": c, "device": dev}))
            continue
        if exc is not None:
            cls = type(exc).__name__
            if is_refusal(exc):
                st["refused"] += 1
                raised[f"{dev}:{cls}"] = raised.get(f"{dev}:{cls}", 0) + 1
            else:
                kinds = "+".join(sorted({m[0] for m in meas}))
                viol.append(Violation(key=f"{dev}:{kinds}:crash:{cls}" + crash_tag(dev, c, tape),
                                      detail=f"{where} raised {cls}: {str(exc)[:160]} on {opsdesc} measuring {meas}; tape wires {list(tape.wires)}",
                                      replay={"case": c, "device": dev, "measurements": [list(m) for m in meas]}))
            continue
        st["executed"] += 1
        outs = out if isinstance(out, tuple) and len(meas) > 1 else (out,)
        if dev == "null.qubit":
            shape_recs.append(shape_req(c, meas, tree_of(out)))
            shape_owner.append((ci, "impl", meas))
        ok_all = True
        for v in ([None] if c["batch"] is None else list(range(NB))):
            r = restrict(by_case[ci][v], full, meas)
            exp = devsim.expected_values(meas, r, n)
            if dev == "null.qubit":
                if v in (None, 0):
                    es = [np.asarray(e) for e in exp]
                    if c["batch"] is not None:
                        es = [np.stack([x] * NB) for x in es]
                    shape_recs.append(shape_req(c, meas, tree_of(tuple(es) if len(es) > 1 else es[0])))
                    shape_owner.append((ci, "oracle", meas))
                continue
            if len(outs) != len(meas):
                viol.append(Violation(key=f"{dev}:nesting", detail=f"{where} returned {len(outs)} results for {len(meas)} measurements on {opsdesc}",
                                      replay={"case": c, "device": dev}))
                ok_all = False
                break
            ctx = {"psi": np.asarray(r["meas"][0]).reshape(-1), "tape": tape}
            for mi, (m, e) in enumerate(zip(meas, exp)):
                got = outs[mi]
                try:
                    got = np.asarray(qp.math.toarray(got) if not isinstance(got, (float, np.ndarray)) else got)
                    if v is not None and got.ndim and got.shape[0] == NB:
                        got = got[v]
                except Exception:  # noqa: BLE001
                    got = np.asarray(np.nan)
                e2 = expected_for(dev, m, e)
                st["compared"] += 1
                kinds_cmp[f"{dev}:{m[0]}"] = kinds_cmp.get(f"{dev}:{m[0]}", 0) + 1
                if agrees(dev, m, got, e2):
                    nontriv.add((ci, dev, str(m)))
                else:
                    ok_all = False
                    g_, e_ = np.asarray(got), np.asarray(e2)
                    tag = diagnose(dev, c, m, got, e2, v, ctx)
                    viol.append(Violation(
                        key=f"{dev}:{m[0]}:{tag}",
                        detail=f"{where} {m} on {opsdesc}{' batch entry ' + str(v) if v is not None else ''}: got "
                               f"{np.round(g_, 6).tolist() if g_.size <= 16 else 'array of shape ' + str(g_.shape)} exact "
                               f"{np.round(e_, 6).tolist() if e_.size <= 16 else 'array of shape ' + str(e_.shape)}; tape wires {list(tape.wires)}",
                        replay={"case": c, "device": dev, "measurement": list(m)}))
                    if tag.endswith("shape"):
                        break
        if ok_all and dev != "null.qubit":
            st["circuits_agreeing"] += 1
            for g in c["circ"]:
                gates_seen[g["g"]] = gates_seen.get(g["g"], 0) + 1
            if len(samples) < 5 and len(c["circ"]) >= 4 and all(s["device"] != dev for s in samples):
                samples.append({"device": dev, "n": n, "labels": c["labels"], "ops": opsdesc, "measurements": [str(m) for m in tape.measurements]})

    # ---------------------------------------------------------------- null.qubit: shapes decided by Trace_ResultShape.tla
    shape_stats = {"generated": 0, "distinct": 0}
    shape_ok = 0
    neg = 0
    if shape_recs:
        bad = copy.deepcopy(next(r for r in shape_recs if r["obs"]["k"] == "A" or r["obs"]["c"]))
        if bad["obs"]["k"] == "T":
            bad["obs"]["c"] = bad["obs"]["c"][:-1]                       # one measurement result dropped
        else:
            bad["obs"] = {"k": "T", "s": [], "c": [bad["obs"]]}          # a spurious tuple
        recs = shape_recs + [bad]
        wd = lib.workdir("C27", "shape")
        (wd / "trace.json").write_text(json.dumps(recs))
        tr = lib.run_tlc("Trace_ResultShape", lib.cfg(init="TInit", next_="TNext", constants={"NTRACES": len(recs)}), wd,
                         env={"TRACE_FILE": str(wd / "trace.json")}, timeout=1200)
        lib.require_ok(tr, "Trace_ResultShape (null.qubit)")
        verd = {v[1] - 1: v[2] for v in tr.tuples if v[0] == "V"}
        if len(verd) != len(recs):
            raise lib.MachineryError("Trace_ResultShape: verdicts are not total")
        if verd[len(recs) - 1] == "ok":
            raise lib.MachineryError("negative control accepted: a corrupted shape tree was judged ok")
        neg += 1
        shape_stats = {"generated": tr.generated, "distinct": tr.distinct}
        for i, (ci, who, meas) in enumerate(shape_owner):
            if verd[i] == "ok":
                if who == "impl":
                    shape_ok += 1
                    per_dev["null.qubit"]["compared"] += 1
                    per_dev["null.qubit"]["circuits_agreeing"] += 1
                    nontriv.add((ci, "null.qubit", show(shape_recs[i]["obs"])))
                continue
            if who == "oracle":
                raise lib.MachineryError(f"the two oracles disagree about a shape ({verd[i]}): request {shape_recs[i]}")
            c = cases[ci]
            viol.append(Violation(key=f"null.qubit:{'+'.join(sorted({m[0] for m in meas}))}:{verd[i]}",
                                  detail=f"null.qubit returned {show(shape_recs[i]['obs'])} for measurements {meas} on {c['n']} wires "
                                         f"(device wires={c['labels'] if c['devwires'] else None}, broadcast={NB if c['batch'] else 0}): verdict "
                                         f"'{verd[i]}' against the return type specification",
                                  replay={"case": c, "device": "null.qubit", "request": shape_recs[i]}))

    # ---------------------------------------------------------------- negative controls of the numeric comparator
    if devsim.close(np.array([0.5, 0.5]), np.array([0.5, 0.5 + 1e-6]), TOL) or agrees("default.clifford/sv", ("state",), np.array([1, 0]), np.array([0, 1])) \
            or not agrees("default.clifford/sv", ("state",), np.array([1j, 0]), np.array([1, 0])) \
            or agrees("default.mixed", ("expval", [3]), 0.5, 0.5 + 1e-6):
        raise lib.MachineryError("negative control accepted by the comparator")
    neg += 3
    # vacuity: every constructed device must have produced compared values
    for d, st in per_dev.items():
        need = {"default.clifford/sv": 3}.get(d, 10) * (1 if tier == "quick" else 10)
        if _cases is None and d not in not_covered and st["compared"] < need and not any(v.key.startswith(d) for v in viol):
            raise lib.MachineryError(f"vacuous: {d} produced only {st['compared']} compared values ({st})")

    cov = {"states": stats["distinct"] + shape_stats["distinct"], "transitions": stats["generated"] + shape_stats["generated"],
           "traces_validated_against_impl": sum(st["executed"] for st in per_dev.values()),
           "evaluations": sum(st["compared"] for st in per_dev.values()), "distinct_nontrivial": len(nontriv),
           "rule": "seeded random circuits (1-5 wires, 1-8 gates, BasisState preparation, broadcasting, mixed labels) over the reference gate "
                   "table, Clifford pool for default.clifford; non-trivial = distinct (circuit, device, measurement) triples whose returned "
                   "value equals TLC's exact value (null.qubit: distinct (circuit, shape tree) judged ok by Trace_ResultShape.tla)",
           "samples": samples, "exhaustive": False, "per_device": per_dev, "devices_not_covered": not_covered,
           "refusals_by_device_and_class": raised, "documented_unsupported_measurement_refused": probes_refused,
           "compared_by_device_and_kind": kinds_cmp, "gate_kinds_in_agreeing_circuits": gates_seen,
           "null_qubit_shapes_ok": shape_ok, "oracle_shape_selfchecks": sum(1 for o in shape_owner if o[1] == "oracle"),
           "negative_controls_rejected": neg, "circuits": len(cases), "ring_level_M": M,
           "device_cpu_seconds": {k: round(v, 1) for k, v in t_dev.items()}, "python_cpu_seconds": round(time.process_time(), 1)}
    return CheckResult(coverage=cov, violations=viol, assumptions=[
        "angles on the lattice 4*pi/16; density matrices, purities and entropies are computed from TLC's exact state with numpy; float comparison at 1e-8",
        "qp.state() on default.mixed is compared with |psi><psi| (documented); on default.clifford (tableau=False) up to a global phase; "
        "default.clifford state vectors and density matrices at 1e-6 (stim hands out single-precision vectors)",
        "default.tensor is asked only for its documented measurement types (expval, var, state); qp.probs must be refused",
        "a refusal (DeviceError, NotImplementedError, decomposition errors, stim 'Gate not found') is not a disagreement; any other exception is reported as a crash",
        "mutual information is a scalar leaf in the shape model (ResultShape kind vnentropy)"])
