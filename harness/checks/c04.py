"""C04 Operator equality is an equivalence compatible with hashing and matrices.

TRACE.  The driver builds objects from DESCRIPTIONS (reference-table gates with lattice angles, adjoint/pow/ctrl wrappers,
Prod/Sum/SProd/LinearCombination, QubitUnitary with ring matrices, measurement processes), and for every description a
the pairs (a, rebuild(a)), (a, copy(a)), (a, deepcopy(a)), (a, mutate(a, field)) for every single-field mutation
(parameter by one lattice step / by 2*pi / by 4*pi, wire, wire order, hyper-parameter, control value, control order,
exponent, class name, coefficient, operand, operand order, measurement kind / wires / attributes) and the triple
(a, rebuild(a), copy(a)).  It records equal(a,a), equal(b,b), equal(a,b), equal(b,a) and hash(a) == hash(b) from the real
qp.equal / __hash__.  Trace_Equality.tla recomputes the exact matrix of both objects on the joint register in
Z[zeta_16][1/2] from the reference gate table (linear combinations of gate products) and validates every record:
reflexive; symmetric; identical data => equal and equal hashes; equal => same linear map (and same measurement kind /
wires); triples all equal.  equal(a,b) with different hashes for NON-identical data, attributes ignored by equal, and the
agreement of the structural model (EqModel / KeyModel) with the code are reported as evidence only.

REPLAY -> TRACE (histories).  EqHistoryGen.tla models objects as immutable values under the public calls hash / copy /
deepcopy / map_wires and enumerates every call history up to a bound together with the data each object is expected to
hold at its end.  The driver replays the histories on real objects (all histories on the first base of every
implementation family = distinct __hash__ / map_wires / copy implementations, one round-robin history on every other
base) and records, for every object of the final store, the pair (object, fresh reconstruction from the expected data)
as identical data, and the pairs (original, derived object) as identical / mutated according to the expected data;
Trace_Equality.tla decides them with the same clauses."""
import copy
import json
import random

import numpy as np

import pennylane as qp

from .. import lib
from ..codec import ARITY, MULTI_PARAM, NO_PARAM, ONE_PARAM, PWI, decode_gate, matrix_to_ring, rec
from ..lib import CheckResult, Violation

M = 4
NLAT = 1 << M                      # lattice length of 4*pi; 2*pi = NLAT/2; one step = pi/4 (>> atol = 1e-9)
ONE = [1, 0, 0]
GENERIC = [1, 2, 3, 5, 6, 7, 9, 11, 13, 14]
SPECIAL = [0, 4, 8, 12]
LABELSETS = [[0, 1, 2, 3, 4, 5, 6, 7], ["a", "b", "c", "d", "e", "f", "g", "h"], [3, "q", 0, "aux", 7, 1, "z", 5]]
BLANK_REC = rec("Identity", [1])
SIBLING = {"RX": "RY", "RY": "RZ", "RZ": "RX", "PauliX": "PauliY", "PauliY": "PauliZ", "PauliZ": "PauliX", "S": "T", "T": "S",
           "CNOT": "CZ", "CZ": "CY", "CY": "CNOT", "CRX": "CRY", "CRY": "CRZ", "CRZ": "CRX", "IsingXX": "IsingYY",
           "IsingYY": "IsingZZ", "IsingZZ": "IsingXX", "SWAP": "ISWAP", "ISWAP": "SWAP", "Toffoli": "CCZ", "CCZ": "Toffoli",
           "PhaseShift": "U1", "U1": "PhaseShift", "Hadamard": "SX", "SX": "Hadamard", "Rot": "U3", "U3": "Rot",
           "SingleExcitation": "SingleExcitationPlus", "DoubleExcitation": "DoubleExcitationMinus"}
_H = np.array([[1, 1], [1, -1]]) / np.sqrt(2)
_S = np.diag([1, 1j])
_T = np.diag([1, np.exp(0.25j * np.pi)])
_X = np.array([[0, 1], [1, 0]])
MATS = {1: [_H, _S @ _H, _T, _X @ _T], 2: [np.kron(_H, _S), np.kron(_X, _T) @ np.kron(_H, _H), np.diag([1, 1, 1j, -1])]}


# ------------------------------------------------------------------------------------------------ descriptions
def G(name, w, p=(), x=(), mods=(), m=None):
    return {"t": "gate", "r": rec(name, list(w), list(p), list(x), m=m, mods=[dict(md) for md in mods])}


def MAT(dim_wires, idx, w):
    return {"t": "gate", "r": rec("MAT", list(w), m=matrix_to_ring(MATS[dim_wires][idx], M)), "mi": idx}


def PROD(*ops):
    return {"t": "prod", "ops": list(ops)}


def SUM(*ops):
    return {"t": "sum", "ops": list(ops)}


def SPROD(c, op):
    return {"t": "sprod", "c": list(c), "op": op}


def LC(cs, ops):
    return {"t": "lincomb", "cs": [list(c) for c in cs], "ops": list(ops)}


def MP(kind, obs=None, w=(), w1=(), **at):
    return {"t": "mp", "k": kind, "obs": obs, "w": list(w), "w1": list(w1), "at": dict(at)}


def positions(d):
    t = d["t"]
    if t == "gate":
        return set(d["r"]["w"])
    if t in ("prod", "sum", "lincomb"):
        return set().union(*[positions(o) for o in d["ops"]])
    if t == "sprod":
        return positions(d["op"])
    s = set(d["w"]) | set(d["w1"])
    return s | (positions(d["obs"]) if d["obs"] else set())


def relabel(d, f):
    """description with every wire position j <= len(f) replaced by f[j-1] (the data a map_wires result must hold)."""
    mp = lambda ws: [f[j - 1] if j <= len(f) else j for j in ws]      # noqa: E731
    t = d["t"]
    if t == "gate":
        nd = dict(d, r=dict(json.loads(json.dumps(d["r"])), w=mp(d["r"]["w"])))
        return nd
    if t in ("prod", "sum", "lincomb"):
        return dict(d, ops=[relabel(o, f) for o in d["ops"]])
    if t == "sprod":
        return dict(d, op=relabel(d["op"], f))
    return dict(d, w=mp(d["w"]), w1=mp(d["w1"]), obs=relabel(d["obs"], f) if d["obs"] else None)


def scalar(c):
    v = complex(c[0], c[1]) / (1 << c[2])
    return v.real if v.imag == 0 else v


def build(d, lab):
    """description -> a fresh PennyLane object (positions 1.. -> labels)."""
    t = d["t"]
    if t == "gate":
        return decode_gate(d["r"], M, lab)
    if t == "prod":
        return qp.prod(*[build(o, lab) for o in d["ops"]])
    if t == "sum":
        return qp.sum(*[build(o, lab) for o in d["ops"]])
    if t == "sprod":
        return qp.s_prod(scalar(d["c"]), build(d["op"], lab))
    if t == "lincomb":
        return qp.Hamiltonian([scalar(c) for c in d["cs"]], [build(o, lab) for o in d["ops"]])
    k, at = d["k"], d["at"]
    W = [lab[i - 1] for i in d["w"]]
    W1 = [lab[i - 1] for i in d["w1"]]
    obs = build(d["obs"], lab) if d["obs"] else None
    if k == "expval":
        return qp.expval(obs)
    if k == "var":
        return qp.var(obs)
    if k == "probs_op":
        return qp.probs(op=obs)
    if k == "sample_op":
        return qp.sample(op=obs)
    if k == "counts_op":
        return qp.counts(op=obs, all_outcomes=at["all"])
    if k == "probs_w":
        return qp.probs(wires=W)
    if k == "sample_w":
        return qp.sample(wires=W)
    if k == "counts_w":
        return qp.counts(wires=W, all_outcomes=at["all"])
    if k == "state":
        return qp.state()
    if k == "dm":
        return qp.density_matrix(wires=W)
    if k == "purity":
        return qp.purity(wires=W)
    if k == "vn":
        return qp.vn_entropy(wires=W, log_base=at["base"])
    if k == "mi":
        return qp.mutual_info(wires0=W, wires1=W1, log_base=at["base"])
    if k == "cshadow":
        return qp.classical_shadow(wires=W, seed=at["seed"])
    if k == "sexp":
        return qp.shadow_expval(obs, k=at["k"], seed=at["seed"])
    raise lib.MachineryError(f"unknown measurement kind {k}")


# ------------------------------------------------------------------------------------------------ denotation operands
def _gd_mul(a, b):
    return [a[0] * b[0] - a[1] * b[1], a[0] * b[1] + a[1] * b[0], a[2] + b[2]]


def terms(d):
    """description of an operator -> [(c, [gate records in circuit order])]  meaning SUM c * PROD."""
    t = d["t"]
    if t == "gate":
        return [(ONE, [d["r"]])]
    if t == "prod":                      # prod(A1, .., Ak) = A1 . A2 ... Ak : Ak acts first
        out = [(ONE, [])]
        for o in d["ops"]:
            out = [(_gd_mul(c1, c2), g2 + g1) for (c1, g1) in out for (c2, g2) in terms(o)]
        return out
    if t == "sum":
        return [x for o in d["ops"] for x in terms(o)]
    if t == "sprod":
        return [(_gd_mul(d["c"], c), gs) for (c, gs) in terms(d["op"])]
    if t == "lincomb":
        return [(_gd_mul(cc, c), gs) for cc, o in zip(d["cs"], d["ops"]) for (c, gs) in terms(o)]
    raise lib.MachineryError("terms() of a measurement")


def operand(d):
    return {"terms": [{"c": list(c), "gs": gs} for c, gs in terms(d)]}


def tags(d):
    """-> (hasop, operand-description | None, kind tag, wire list, evidence attributes)."""
    if d["t"] != "mp":
        return True, d, "op", [], ""
    at = d["at"]
    tag = d["k"] + "|" + ",".join(f"{k}={at[k]}" for k in sorted(at) if k != "seed")
    ev = ",".join(f"{k}={at[k]}" for k in sorted(at) if k == "seed") + (f"|{d['w']}|{d['w1']}" if d["w1"] else "")
    return d["obs"] is not None, d["obs"], tag, d["w"] + d["w1"], ev


# ------------------------------------------------------------------------------------------------ mutations
def _mut_gate(d, n):
    r = d["r"]
    out = []

    def new(field, **ch):
        rr = json.loads(json.dumps(r))
        rr.update(ch)
        nd = {"t": "gate", "r": rr}
        out.append((field, nd))
        return nd
    if r["g"] == "MAT":
        nw = len(r["w"]) - sum(len(md["cv"]) for md in r["mods"] if md["t"] == "ctrl")
        j = (d.get("mi", 0) + 1) % len(MATS[nw])
        new("matrix", m=matrix_to_ring(MATS[nw][j], M))["mi"] = j
    for i in sorted({0, len(r["p"]) - 1} & set(range(len(r["p"])))):
        for field, dlt in (("param-step", 1), ("param-2pi", NLAT // 2), ("param-4pi", NLAT)):
            p = list(r["p"])
            p[i] += dlt
            new(f"{field}[{i}]", p=p)
    if r["g"] != "GlobalPhase" or r["mods"]:
        for j in sorted({0, len(r["w"]) - 1}):
            w = list(r["w"])
            w[j] = n + 1
            new(f"wire-fresh[{j}]", w=w)
        if len(r["w"]) >= 2:
            w = list(r["w"])
            w[0], w[1] = w[1], w[0]
            new("wire-swap[0,1]", w=w)
        if len(r["w"]) >= 3:
            w = list(r["w"])
            w[-1], w[-2] = w[-2], w[-1]
            new("wire-swap[last]", w=w)
    if r["g"] == "PauliRot":
        x = list(r["x"])
        x[0] = (x[0] % 3) + 1
        new("hyper:pauli_word", x=x)
    if r["g"] == "MultiControlledX":
        x = list(r["x"])
        x[0] = 1 - x[0]
        new("control-value", x=x)
        if len(x) >= 2 and not r["mods"]:
            x = list(r["x"])
            w = list(r["w"])
            x[0], x[1], w[0], w[1] = x[1], x[0], w[1], w[0]
            new("control-reorder", x=x, w=w)
    ctrls = [i for i, md in enumerate(r["mods"]) if md["t"] == "ctrl"]
    # >= 3 control wires: every cyclic re-listing of the control wires combined with every cyclic shift of the control
    # values (same control dictionary iff the two shifts agree; TLC decides through the denotation)
    rot = lambda l, k: l[k:3] + l[:k] + l[3:]       # noqa: E731
    cyc = [(a_, b_) for a_ in range(3) for b_ in range(3) if (a_, b_) != (0, 0)]
    if r["g"] == "MultiControlledX" and len(r["x"]) >= 3 and not r["mods"]:
        for a_, b_ in cyc:
            new(f"control-cycle[{a_},{b_}]", w=rot(list(r["w"]), a_), x=rot(list(r["x"]), b_))
    if len(ctrls) == 1 and len(r["mods"][ctrls[0]]["cv"]) >= 3:
        for a_, b_ in cyc:
            mods = json.loads(json.dumps(r["mods"]))
            mods[ctrls[0]]["cv"] = rot(mods[ctrls[0]]["cv"], b_)
            new(f"control-cycle[{a_},{b_}]", mods=mods, w=rot(list(r["w"]), a_))
    for i in ctrls:
        mods = json.loads(json.dumps(r["mods"]))
        mods[i]["cv"][0] = 1 - mods[i]["cv"][0]
        new(f"control-value[{i}]", mods=mods)
    if len(ctrls) == 1 and len(r["mods"][ctrls[0]]["cv"]) >= 2:
        mods = json.loads(json.dumps(r["mods"]))
        cv = mods[ctrls[0]]["cv"]
        w = list(r["w"])
        cv[0], cv[1], w[0], w[1] = cv[1], cv[0], w[1], w[0]
        new("control-reorder", mods=mods, w=w)
    for i, md in enumerate(r["mods"]):
        if md["t"] == "pow":
            mods = json.loads(json.dumps(r["mods"]))
            mods[i]["z"] += 1
            new(f"exponent[{i}]", mods=mods)
    new("adjoint-added", mods=json.loads(json.dumps(r["mods"])) + [{"t": "adj"}])
    if r["g"] in SIBLING:
        new("class-name", g=SIBLING[r["g"]])
    return out


def mutations(d, n):
    """every single-field mutation of a description: [(field, new description)]."""
    t = d["t"]
    if t == "gate":
        return _mut_gate(d, n)
    out = []
    if t in ("prod", "sum"):
        ops = d["ops"]
        out.append(("operand-order[0,1]", dict(d, ops=[ops[1], ops[0]] + ops[2:])))
        if len(ops) >= 3:
            out.append(("operand-order[last]", dict(d, ops=ops[:-2] + [ops[-1], ops[-2]])))
            out.append(("operand-dropped", dict(d, ops=ops[:-1])))
        for i in (0, len(ops) - 1):
            for f, nd in mutations(ops[i], n)[:3]:
                out.append((f"operand[{i}]:{f}", dict(d, ops=ops[:i] + [nd] + ops[i + 1:])))
        return out
    if t == "sprod":
        c = d["c"]
        out.append(("coefficient+1", dict(d, c=[c[0] + (1 << c[2]), c[1], c[2]])))
        out.append(("coefficient-sign", dict(d, c=[-c[0], -c[1], c[2]])))
        out.append(("coefficient*i", dict(d, c=[-c[1], c[0], c[2]])))
        for f, nd in mutations(d["op"], n)[:4]:
            out.append((f"operand:{f}", dict(d, op=nd)))
        return out
    if t == "lincomb":
        cs, ops = d["cs"], d["ops"]
        c = cs[0]
        out.append(("coefficient+1", dict(d, cs=[[c[0] + (1 << c[2]), c[1], c[2]]] + cs[1:])))
        out.append(("coefficient-sign", dict(d, cs=cs[:-1] + [[-cs[-1][0], -cs[-1][1], cs[-1][2]]])))
        out.append(("term-order", dict(d, cs=[cs[1], cs[0]] + cs[2:], ops=[ops[1], ops[0]] + ops[2:])))
        out.append(("coefficient-swap", dict(d, cs=[cs[1], cs[0]] + cs[2:])))
        for f, nd in mutations(ops[0], n)[:3]:
            out.append((f"operand[0]:{f}", dict(d, ops=[nd] + ops[1:])))
        return out
    # measurement processes
    k, at = d["k"], d["at"]
    sib = {"expval": "var", "var": "expval", "probs_op": "sample_op", "sample_op": "probs_op", "probs_w": "sample_w",
           "sample_w": "probs_w", "dm": "purity", "purity": "dm"}
    if k in sib:
        out.append(("mp-kind", dict(d, k=sib[k])))
    if d["w"]:
        out.append(("mp-wire-fresh", dict(d, w=[n + 1] + d["w"][1:])))
        if len(d["w"]) >= 2:
            out.append(("mp-wire-order", dict(d, w=[d["w"][1], d["w"][0]] + d["w"][2:])))
            if not d["w1"]:
                out.append(("mp-wire-dropped", dict(d, w=d["w"][:-1])))
    if d["w1"] and len(d["w1"]) >= 2:
        out.append(("mp-partition", dict(d, w=d["w"] + d["w1"][:1], w1=d["w1"][1:])))
    if "all" in at:
        out.append(("mp-all_outcomes", dict(d, at=dict(at, all=not at["all"]))))
    if "base" in at:
        out.append(("mp-log_base", dict(d, at=dict(at, base=2 if at["base"] is None else at["base"] + 8))))
    if "k" in at:
        out.append(("mp-k", dict(d, at=dict(at, k=at["k"] + 1))))
    if "seed" in at:
        out.append(("mp-seed", dict(d, at=dict(at, seed=at["seed"] + 1))))
    if d["obs"]:
        for f, nd in mutations(d["obs"], n)[:4]:
            out.append((f"obs:{f}", dict(d, obs=nd)))
    return out


# ------------------------------------------------------------------------------------------------ the object space
def bases(rng, tier):
    def ang(k=1):
        return [rng.choice(SPECIAL) if rng.random() < 0.3 else rng.choice(GENERIC) for _ in range(k)]
    B = []
    W = lambda k: list(range(1, k + 1))       # noqa: E731
    for nme in NO_PARAM:
        B.append(G(nme, W(ARITY[nme])))
    B.append(G("Identity", [1, 2]))
    for nme in ONE_PARAM:
        if nme in ("MultiRZ", "PauliRot"):
            continue
        B.append(G(nme, W(ARITY[nme]), ang()))
    for nme, k in MULTI_PARAM.items():
        B.append(G(nme, W(ARITY[nme]), ang(k)))
    for k in (1, 2, 3):
        B.append(G("MultiRZ", W(k), ang()))
    for word in ([1], [3, 1], [0, 3], [2, 2, 3]):
        B.append(G("PauliRot", W(len(word)), ang(), word))
    B += [G("QFT", [1, 2]), G("QFT", [1, 2, 3])]
    for cv in ([1, 1], [0, 1], [1, 0, 1]):
        B.append(G("MultiControlledX", W(len(cv) + 1), x=cv))
    B += [MAT(1, 0, [1]), MAT(1, 2, [2]), MAT(2, 0, [1, 2]), MAT(2, 2, [2, 1])]
    ADJ, POW, CT = {"t": "adj"}, (lambda z: {"t": "pow", "z": z}), (lambda cv: {"t": "ctrl", "cv": list(cv)})
    npar = lambda g: MULTI_PARAM.get(g, 1 if g in ONE_PARAM else 0)      # noqa: E731
    for g in ("S", "T", "SX", "RX", "CRY", "ISWAP", "Rot", "PhaseShift", "IsingXY", "Hadamard"):
        B.append(G(g, W(ARITY[g]), ang(npar(g)), mods=[ADJ]))
    for g, z in (("PauliX", 2), ("S", 2), ("T", 3), ("SX", 2), ("RZ", 3), ("CNOT", 2), ("SWAP", 3), ("RX", -1), ("Hadamard", 3), ("CRZ", 2)):
        B.append(G(g, W(ARITY[g]), ang(npar(g)), mods=[POW(z)]))
    for g, cv in (("Hadamard", [1]), ("S", [1]), ("T", [0]), ("PhaseShift", [1]), ("RX", [0]), ("RX", [1]), ("RY", [1]), ("RZ", [1, 0]),
                  ("PauliZ", [0]), ("PauliX", [0, 1]), ("PauliX", [1, 1, 0]), ("SX", [1]), ("SWAP", [0]), ("ISWAP", [1, 1]),
                  ("IsingXX", [1]), ("Rot", [1]), ("Rot", [0, 1]), ("U2", [1]), ("CNOT", [0]), ("CZ", [1]), ("Identity", [1]),
                  ("GlobalPhase", [1]), ("GlobalPhase", [1, 0]),
                  ("RX", [1, 0, 0]), ("S", [0, 1, 1]), ("PhaseShift", [0, 0, 1])):
        nt = 0 if g == "GlobalPhase" else ARITY[g]
        B.append(G(g, W(nt + len(cv)), ang(npar(g)), mods=[CT(cv)]))
    B.append(G("PauliRot", [1, 2, 3], ang(), [1, 2], mods=[CT([1])]))
    B.append(G("MultiRZ", [1, 2, 3, 4], ang(), mods=[CT([0, 1])]))
    B.append(G("S", [1, 2], mods=[ADJ, CT([1])]))
    B.append(G("T", [1, 2], mods=[CT([1]), ADJ]))
    B.append(G("SX", [1, 2], mods=[POW(2), CT([1])]))
    B.append(G("RX", [1, 2], ang(), mods=[CT([1]), POW(2)]))
    B.append(G("RY", [1, 2, 3], ang(), mods=[CT([1]), CT([0])]))
    B.append(G("RZ", [1], ang(), mods=[ADJ, ADJ]))
    B.append(G("RX", [1], ang(), mods=[POW(2), ADJ]))
    X, Y, Z, Hd, S_, T_ = (lambda i: G("PauliX", [i])), (lambda i: G("PauliY", [i])), (lambda i: G("PauliZ", [i])), \
        (lambda i: G("Hadamard", [i])), (lambda i: G("S", [i])), (lambda i: G("T", [i]))
    RX = lambda i: G("RX", [i], ang())            # noqa: E731
    B += [PROD(X(1), Y(2)), PROD(X(1), Y(1)), PROD(X(1), Z(1)), PROD(G("CNOT", [1, 2]), X(2)), PROD(G("CNOT", [1, 2]), X(1)),
          PROD(RX(1), Hd(1)), PROD(RX(1), G("RY", [2], ang()), G("CZ", [1, 2])), PROD(S_(1), T_(1)), PROD(X(1), X(2), X(3)),
          PROD(Hd(1), S_(2), Hd(1)), PROD(G("CRX", [1, 2], ang()), G("SWAP", [2, 3])), PROD(PROD(X(1), Y(2)), Z(3)),
          PROD(G("S", [1], mods=[ADJ]), Hd(1)), PROD(SPROD([2, 0, 0], X(1)), Z(2))]
    B += [SUM(X(1), Z(2)), SUM(X(1), Y(1)), SUM(Hd(1), S_(1)), SUM(X(1), X(1)), SUM(PROD(X(1), X(2)), PROD(Z(1), Z(2))),
          SUM(G("CNOT", [1, 2]), X(2)), SUM(X(1), Y(2), Z(3)), SUM(SPROD([1, 0, 1], Z(1)), Hd(2)), SUM(RX(1), Hd(2))]
    B += [SPROD([2, 0, 0], X(1)), SPROD([0, 1, 0], Z(1)), SPROD([-3, 0, 0], PROD(X(1), Y(2))), SPROD([1, 0, 1], Hd(1)),
          SPROD([2, 0, 0], RX(1)), SPROD([2, 0, 0], SPROD([3, 0, 0], X(1))), SPROD([-1, 0, 0], G("CZ", [1, 2])),
          SPROD([1, 1, 1], SUM(X(1), Z(1)))]
    B += [LC([[1, 0, 0], [2, 0, 0]], [X(1), Z(2)]), LC([[1, 0, 1], [1, 0, 1]], [Z(1), Z(2)]),
          LC([[2, 0, 0], [-1, 0, 0]], [PROD(X(1), Z(2)), Y(3)]), LC([[1, 0, 0], [1, 0, 0]], [X(1), Hd(1)]),
          LC([[3, 0, 2], [1, 0, 0], [1, 0, 0]], [Z(1), PROD(X(1), X(2)), Y(2)])]
    obs = [X(1), Hd(2), PROD(X(1), Y(2)), PROD(Z(1), Z(1)), SUM(X(1), Z(2)), SPROD([2, 0, 0], Z(1)),
           LC([[1, 0, 1], [2, 0, 0]], [Z(1), PROD(X(1), X(2))]), G("Identity", [1])]
    for o in obs:
        B.append(MP("expval", o))
    for o in obs[:5]:
        B.append(MP("var", o))
    B += [MP("probs_op", Z(1)), MP("probs_op", PROD(X(1), Y(2))), MP("sample_op", X(1)), MP("sample_op", Hd(2)),
          MP("counts_op", Z(1), all=False), MP("counts_op", PROD(Z(1), X(2)), all=True),
          MP("probs_w", w=[1, 2]), MP("probs_w", w=[2]), MP("sample_w", w=[1]), MP("sample_w", w=[2, 1, 3]),
          MP("counts_w", w=[1, 2], all=False), MP("counts_w", w=[1], all=True), MP("state"), MP("dm", w=[1]), MP("dm", w=[2, 1]),
          MP("purity", w=[1, 2]), MP("vn", w=[1], base=None), MP("vn", w=[1, 2], base=2),
          MP("mi", w=[1], w1=[2, 3], base=None), MP("mi", w=[1, 2], w1=[3, 4], base=2),
          MP("cshadow", w=[1, 2], seed=1), MP("sexp", X(1), k=1, seed=1),
          MP("sexp", LC([[1, 0, 0], [2, 0, 0]], [X(1), Z(2)]), k=2, seed=3)]
    return B


# ------------------------------------------------------------------------------------------------ observation
def _ans(f):
    try:
        r = f()
    except Exception as e:  # noqa: BLE001 - the exception class is the recorded observation
        return "E:" + type(e).__name__
    if isinstance(r, (bool, np.bool_)):
        return "T" if bool(r) else "F"
    return "E:non-boolean:" + type(r).__name__


def _case(kind, da, db, a, b, ident, n):
    hasop_a, oa, ta, wa, xa = tags(da)
    hasop_b, ob, tb, wb, xb = tags(db)
    hasop = hasop_a and hasop_b
    enc = da["t"] == "gate" and db["t"] == "gate" and da["r"]["g"] != "MAT" and db["r"]["g"] != "MAT"
    if hasop_a != hasop_b:            # one has an observable, the other only wires: different kinds by construction
        ta, tb = ta + "|obs" * hasop_a, tb + "|obs" * hasop_b
    return {"kind": kind, "n": n, "hasop": hasop,
            "a": operand(oa) if hasop else {"terms": []}, "b": operand(ob) if hasop else {"terms": []},
            "ta": ta, "tb": tb, "wa": wa, "wb": wb, "xa": xa, "xb": xb,
            "eaa": _ans(lambda: qp.equal(a, a)), "ebb": _ans(lambda: qp.equal(b, b)),
            "eab": _ans(lambda: qp.equal(a, b)), "eba": _ans(lambda: qp.equal(b, a)),
            "hab": _ans(lambda: hash(a) == hash(b)), "ident": ident, "tri": [],
            "enc": enc, "ra": da["r"] if enc else BLANK_REC, "rb": db["r"] if enc else BLANK_REC}


def _short(d):
    t = d["t"]
    if t == "gate":
        r = d["r"]
        return r["g"] + (str(r["p"]) if r["p"] else "") + ("".join(PWI[c] for c in r["x"]) if r["g"] == "PauliRot" else
                                                            (str(r["x"]) if r["x"] else "")) + \
            "".join("+" + md["t"] + (str(md.get("cv", md.get("z", ""))) if md["t"] != "adj" else "") for md in r["mods"]) + "@" + \
            ",".join(map(str, r["w"]))
    if t in ("prod", "sum"):
        return t + "(" + ";".join(_short(o) for o in d["ops"]) + ")"
    if t == "sprod":
        return f"sprod({d['c']};{_short(d['op'])})"
    if t == "lincomb":
        return "lincomb(" + ";".join(f"{c}*{_short(o)}" for c, o in zip(d["cs"], d["ops"])) + ")"
    return f"{d['k']}({_short(d['obs']) if d['obs'] else ''}{d['w'] or ''}{'|' + str(d['w1']) if d['w1'] else ''}{d['at'] or ''})"


def _shape(d):
    """key fragment: the description without its angle values (stable across seeds)."""
    t = d["t"]
    if t == "gate":
        r = d["r"]
        return r["g"] + "".join("+" + md["t"] for md in r["mods"]) + f"/{len(r['w'])}"
    if t in ("prod", "sum"):
        return t + "(" + ";".join(_shape(o) for o in d["ops"]) + ")"
    if t == "sprod":
        return f"sprod({_shape(d['op'])})"
    if t == "lincomb":
        return "lincomb(" + ";".join(_shape(o) for o in d["ops"]) + ")"
    return f"{d['k']}({_shape(d['obs']) if d['obs'] else len(d['w'])})"


def gen_histories(tier):
    """EqHistoryGen.tla: every history of hash / copy / deepcopy / map_wires calls with the expected value of every object."""
    r = lib.run_tlc("EqHistoryGen", lib.cfg(constants={"KMAX": 5, "MAXLEN": 2 if tier == "quick" else 3,
                                                       "WITHDEEP": 0 if tier == "quick" else 1},
                                            invariants=["TypeOK"], properties=["Immutable"], constraints=["Emit"]),
                    lib.workdir("C04", "histgen"))
    lib.require_ok(r, "EqHistoryGen")
    byk = {}
    for h in r.json_lines:
        byk.setdefault(h["k"], []).append(h)
    for k in byk:
        byk[k].sort(key=lambda h: json.dumps(h["hist"]))
    if sorted(byk) != [2, 3, 4, 5]:
        raise lib.MachineryError(f"EqHistoryGen emitted histories for k = {sorted(byk)}")
    return byk, r


def _sig(h):
    return ";".join(f"{e['op']}{e['i']}" + ("".join(map(str, e["p"])) if e["op"] == "map" else "") for e in h["hist"])


def _family(a):
    """implementation family of an object: which __hash__ / map_wires / copy code it runs (test allocation only)."""
    c = type(a)
    q = lambda nme: getattr(getattr(c, nme, None), "__qualname__", "-")      # noqa: E731
    return (q("__hash__"), q("map_wires"), q("__copy__"), q("__deepcopy__"))


def replay_history(h, da, lab):
    """replay the calls of history h on a fresh object built from da -> the final store of real objects."""
    objs = [build(da, lab)]
    for e in h["hist"]:
        o = objs[e["i"] - 1]
        if e["op"] == "hash":
            hash(o)
        elif e["op"] == "copy":
            objs.append(copy.copy(o))
        elif e["op"] == "deepcopy":
            objs.append(copy.deepcopy(o))
        else:
            objs.append(o.map_wires({lab[j]: lab[pj - 1] for j, pj in enumerate(e["p"]) if pj != j + 1}))
    return objs


def run(tier, seed):
    rng = random.Random(400 + seed)
    reps = 1 if tier == "quick" else 4
    cases, meta = [], []
    build_errors = {}
    hists, hres = gen_histories(tier)
    hcount = {k: 0 for k in hists}
    fam_seen, hstat = {}, {"histories_replayed": 0, "hash_before_map": 0, "original_kept_after_map": 0, "families": 0,
                           "replay_errors": {}}
    for rep in range(reps):
        for da in bases(rng, tier):
            lab = LABELSETS[(len(cases) + rep) % len(LABELSETS)]
            n0 = max(positions(da) or {1})
            try:
                a = build(da, lab)
            except Exception as e:  # noqa: BLE001
                raise lib.MachineryError(f"cannot build base object {_short(da)}: {type(e).__name__}: {e}") from e
            pairs = [("rebuild", da, lambda: build(da, lab), True), ("copy", da, lambda: copy.copy(a), True),
                     ("deepcopy", da, lambda: copy.deepcopy(a), True)]
            for field, db in mutations(da, n0):
                pairs.append(("mut:" + field, db, (lambda db=db: build(db, lab)), False))
            for kind, db, mk, ident in pairs:
                n = max(positions(da) | positions(db) | {1})
                try:
                    b = mk()
                except Exception as e:  # noqa: BLE001 - an invalid mutant (e.g. duplicate wires) is not a pair
                    build_errors[type(e).__name__] = build_errors.get(type(e).__name__, 0) + 1
                    if ident:
                        raise lib.MachineryError(f"{kind} of {_short(da)} raised {type(e).__name__}: {e}") from e
                    continue
                cases.append(_case(kind, da, db, a, b, ident, n))
                meta.append({"kind": kind, "a": _short(da), "b": _short(db), "shape": _shape(da), "str": [str(a)[:120], str(b)[:120]]})
            # histories: objects are values (EqHistoryGen.tla); every object of the final store against a fresh
            # reconstruction from its expected data, and the original against every derived object
            if n0 <= 4:
                H = hists[n0 + 1]
                fam = _family(a)
                if fam_seen.setdefault(fam, _short(da)) == _short(da) and rep == 0:
                    todo = H
                else:
                    todo = [H[hcount[n0 + 1] % len(H)]]
                    hcount[n0 + 1] += 1
                for h in todo:
                    sig = _sig(h)
                    try:
                        objs = replay_history(h, da, lab)
                    except Exception as e:  # noqa: BLE001 - counted; a public call failing on a valid object
                        hstat["replay_errors"][type(e).__name__] = hstat["replay_errors"].get(type(e).__name__, 0) + 1
                        continue
                    hstat["histories_replayed"] += 1
                    ops_ = [e["op"] for e in h["hist"]]
                    hstat["hash_before_map"] += any(e["op"] == "hash" and any(f["op"] == "map" and f["i"] == e["i"]
                                                                                for f in h["hist"][q + 1:])
                                                    for q, e in enumerate(h["hist"]))
                    hstat["original_kept_after_map"] += "map" in ops_
                    dds = [relabel(da, f) for f in h["vals"]]
                    # mechanism drift: an object whose own wire set is not the one the history model expects (map_wires
                    # did not re-target it) says nothing about equality: counted, never a clause
                    # (judged on the object's own ordered wire list against that of the fresh reconstruction)
                    drift = [list(getattr(o, "wires", [])) != list(getattr(build(dj, lab), "wires", [])) for o, dj in zip(objs, dds)]
                    for j, (o, dj) in enumerate(zip(objs, dds)):
                        if drift[j] or drift[0]:
                            hstat["map_wires_drift"] = hstat.get("map_wires_drift", 0) + 1
                            hstat.setdefault("map_wires_drift_examples", {})[_shape(da)] = f"{sig}: {str(o)[:60]} wires {list(o.wires)}, expected {_short(dj)}"
                            continue
                        cases.append(_case(f"hist:{sig}:fresh[{j + 1}]", dj, dj, o, build(dj, lab), True, n0 + 1))
                        meta.append({"kind": f"hist:{sig}:fresh[{j + 1}]", "a": _short(dj), "b": _short(dj), "shape": _shape(da),
                                     "str": [str(o)[:120], "fresh " + _short(dj)]})
                        if j >= 1:
                            cases.append(_case(f"hist:{sig}:pair[{j + 1}]", dds[0], dj, objs[0], o, dds[0] == dj, n0 + 1))
                            meta.append({"kind": f"hist:{sig}:pair[{j + 1}]", "a": _short(dds[0]), "b": _short(dj),
                                         "shape": _shape(da), "str": [str(objs[0])[:120], str(o)[:120]]})
            # the triple a, rebuild(a), copy(a): six pairwise answers
            r_, c_ = build(da, lab), copy.copy(a)
            tri = [_ans(lambda: qp.equal(a, r_)), _ans(lambda: qp.equal(r_, c_)), _ans(lambda: qp.equal(a, c_)),
                   _ans(lambda: qp.equal(r_, a)), _ans(lambda: qp.equal(c_, r_)), _ans(lambda: qp.equal(c_, a))]
            base_case = _case("triple", da, da, a, r_, True, n0)
            base_case["tri"] = tri
            base_case["hasop"] = False
            base_case["a"] = base_case["b"] = {"terms": []}
            cases.append(base_case)
            meta.append({"kind": "triple", "a": _short(da), "b": _short(da), "shape": _shape(da), "str": [str(a)[:120]] * 2})
    nreal = len(cases)
    # ---- negative controls: corrupted copies of real records, each must be rejected with the named clause
    neg = []

    def corrupt(pred, expect, **ch):
        for k in range(nreal):
            c = cases[k]
            if c["kind"] != "triple" and pred(c):
                neg.append((len(cases), expect, k))
                cases.append(dict(c, **ch))
                meta.append(dict(meta[k], kind="NEG:" + expect))
                return
        raise lib.MachineryError(f"no record to derive the negative control '{expect}' from")
    corrupt(lambda c: c["eaa"] == "T", "not-reflexive", eaa="F")
    corrupt(lambda c: c["eab"] == "F" and c["eba"] == "F", "not-symmetric", eba="T")
    corrupt(lambda c: c["ident"] and c["eab"] == "T", "identical-not-equal", eab="F", eba="F")
    corrupt(lambda c: c["ident"] and c["hab"] == "T", "identical-hash-differs", hab="F")
    corrupt(lambda c: c["hasop"] and c["kind"].startswith("mut:param-step") and c["eab"] == "F", "equal-but-different-map",
            eab="T", eba="T")
    corrupt(lambda c: c["hasop"] and c["kind"].startswith("mut:param-2pi") and c["eab"] == "F", "equal-but-different-map",
            eab="T", eba="T")
    corrupt(lambda c: c["kind"] == "mut:mp-kind" and c["eab"] == "F", "equal-but-different-kind", eab="T", eba="T")
    tri_k = next(k for k in range(nreal) if cases[k]["kind"] == "triple")
    neg.append((len(cases), "not-transitive", tri_k))
    cases.append(dict(cases[tri_k], tri=["T", "T", "F", "T", "T", "T"]))
    meta.append(dict(meta[tri_k], kind="NEG:not-transitive"))

    wd = lib.workdir("C04", "trace")
    verd, gen, dist, wall = {}, 0, 0, 0.0
    CH = 3000
    for off in range(0, len(cases), CH):
        part = cases[off:off + CH]
        f = wd / f"cases_{off}.json"
        f.write_text(json.dumps(part))
        r = lib.run_tlc("Trace_Equality", lib.cfg(constants={"M": M, "NCASES": len(part)}), lib.workdir("C04", f"trace_{off}"),
                        env={"TRACE_FILE": str(f)}, timeout=3000)
        lib.require_ok(r, f"Trace_Equality batch @{off}")
        gen += r.generated
        dist += r.distinct
        wall += r.wall_s
        for t in r.tuples:
            if t[0] == "V":
                verd[off + t[1] - 1] = t[2:]
    if len(verd) != len(cases):
        raise lib.MachineryError(f"verdicts are not total: {len(verd)} of {len(cases)}")
    nneg = 0
    for idx, expect, k in neg:
        if verd[idx][0] != expect:
            raise lib.MachineryError(f"negative control accepted: expected clause {expect}, TLC said {verd[idx][0]} for {meta[k]}")
        nneg += 1

    viol, hist = [], {}
    cnt = {"equal_true": 0, "equal_true_nonidentical": 0, "same_map_but_unequal": 0, "different_map_unequal": 0,
           "eq_hash_differs": 0, "hash_collisions": 0, "attr_ignored": 0, "eqmodel_drift": 0, "keymodel_drift": 0,
           "eqmodel_agree": 0, "keymodel_agree": 0, "exceptions": {}}
    eqhash_ex, attr_ex, nontriv, samples, kinds = [], [], set(), [], {}
    for k in range(nreal):
        clause, sem, hflag, aflag, eqm, keym = verd[k]
        c, m = cases[k], meta[k]
        hist[clause] = hist.get(clause, 0) + 1
        fam = c["kind"].split("[")[0]
        if fam.startswith("hist:"):
            fam = "hist:" + fam.rsplit(":", 1)[1]
        kinds[fam] = kinds.get(fam, 0) + 1
        if clause in ("overflow", "spec-inconsistent"):
            raise lib.MachineryError(f"TLC verdict {clause} on {m}")
        for fld in ("eaa", "ebb", "eab", "eba", "hab"):
            if c[fld].startswith("E:"):
                cnt["exceptions"][c[fld][2:]] = cnt["exceptions"].get(c[fld][2:], 0) + 1
        if clause != "ok":
            viol.append(Violation(
                key=f"{clause}:{c['kind']}:{m['shape']}",
                detail=f"{clause}: a = {m['str'][0]}  b = {m['str'][1]}  ({c['kind']}; a = {m['a']}, b = {m['b']}; lattice unit pi/4): "
                       f"equal(a,a)={c['eaa']} equal(b,b)={c['ebb']} equal(a,b)={c['eab']} equal(b,a)={c['eba']} "
                       f"hash-equal={c['hab']} triple={c['tri']}; exact denotations: {sem}",
                replay={"case": c, "meta": m}))
        if c["kind"] == "triple":
            continue
        if c["eab"] == "T":
            cnt["equal_true"] += 1
            if not c["ident"]:
                cnt["equal_true_nonidentical"] += 1
                nontriv.add((c["kind"], m["shape"]))
                if len(samples) < 4 and sem == "same" and c["hasop"]:
                    samples.append({"a": m["str"][0], "b": m["str"][1], "mutation": c["kind"], "equal": "T", "hash_equal": c["hab"],
                                    "tlc_denotations": sem, "verdict": clause})
        elif c["eab"] == "F":
            if sem == "same":
                cnt["same_map_but_unequal"] += 1
            else:
                cnt["different_map_unequal"] += 1
                nontriv.add((c["kind"], m["shape"]))
        if hflag == "hd":
            cnt["eq_hash_differs"] += 1
            if len(eqhash_ex) < 12 and m["shape"] not in {e["shape"] for e in eqhash_ex}:
                eqhash_ex.append({"shape": m["shape"], "a": m["str"][0], "b": m["str"][1], "mutation": c["kind"]})
        if hflag == "hc":
            cnt["hash_collisions"] += 1
        if aflag == "ai":
            cnt["attr_ignored"] += 1
            attr_ex.append({"a": m["a"], "b": m["b"], "mutation": c["kind"], "hash_equal": c["hab"]})
        for flag, nm in ((eqm, "eqmodel"), (keym, "keymodel")):
            if flag in ("a", "d"):
                cnt[f"{nm}_{'agree' if flag == 'a' else 'drift'}"] += 1
    # report the clauses round-robin, so that the first violations printed cover every failing clause
    byc = {}
    for v in viol:
        byc.setdefault(v.key.split(":")[0], []).append(v)
    viol = [v for grp in zip(*[lst + [None] * (max(map(len, byc.values())) - len(lst)) for lst in byc.values()]) for v in grp if v] \
        if byc else []
    if len(samples) < 5:
        k = next(k for k in range(nreal) if cases[k]["kind"].startswith("mut:param-2pi") and cases[k]["hasop"])
        samples.append({"a": meta[k]["str"][0], "b": meta[k]["str"][1], "mutation": cases[k]["kind"], "equal": cases[k]["eab"],
                        "hash_equal": cases[k]["hab"], "tlc_denotations": verd[k][1], "verdict": verd[k][0]})
    if cnt["equal_true_nonidentical"] == 0 or cnt["different_map_unequal"] == 0 or cnt["same_map_but_unequal"] == 0:
        raise lib.MachineryError("vacuous run: no non-identical equal pair / no unequal pair with different maps / no conservative pair")
    hstat["families"] = len(fam_seen)
    if hstat["hash_before_map"] == 0 or hstat["original_kept_after_map"] == 0 or not kinds.get("mut:control-cycle"):
        raise lib.MachineryError(f"vacuous run: histories {hstat}, control-cycle pairs {kinds.get('mut:control-cycle')}")
    if hstat["replay_errors"]:
        raise lib.MachineryError(f"a history call raised on a valid object: {hstat['replay_errors']}")
    dist += hres.distinct
    gen += hres.generated
    cov = {"states": dist, "transitions": gen, "histories": hstat, "implementation_families": {str(k): v for k, v in fam_seen.items()}, "traces_validated_against_impl": nreal, "evaluations": 5 * nreal,
           "distinct_nontrivial": len(nontriv),
           "rule": "non-trivial = distinct (mutation field, object shape) where the two objects are NOT built from identical data and "
                   "either qp.equal answered True (clause M decides) or TLC found different denotations",
           "samples": samples, "exhaustive": False, "ring_level_M": M, "pairs": nreal, "pair_kinds": kinds,
           "verdict_histogram": hist, "negative_controls_rejected": nneg, "invalid_mutants_skipped": build_errors,
           **{k: v for k, v in cnt.items()},
           "model_drift": cnt["eqmodel_drift"] + cnt["keymodel_drift"],
           "equal_but_hash_differs_examples": eqhash_ex, "attributes_ignored_by_equal": attr_ex[:10],
           "tlc": {"generated": gen, "distinct": dist, "wall_s": round(wall, 1)}}
    return CheckResult(coverage=cov, violations=viol,
                       assumptions=["every mutation is structural or changes a parameter by >= pi/4 (>> atol 1e-9, rtol 1e-5): "
                                    "tolerance-edge pairs are excluded as in the statement",
                                    "operator semantics = reference gate table Gates.tla (bound to PennyLane's matrices by C02); "
                                    "Prod/Sum/SProd/LinearCombination are given their textbook matrix meaning (C03)",
                                    "equal(a,b) with unequal hashes is required to be impossible only for identical data (the "
                                    "statement); for other equal pairs it is counted (eq_hash_differs), as are attributes that "
                                    "qp.equal ignores (sampling seed, mutual_info partition)",
                                    "angles on the lattice k*pi/4, one seeded angle assignment per object shape (4 in thorough); "
                                    "numpy data only (no interface / trainability mutations); no mid-circuit measurement values"])
