"""C67 helpers: an independent OpenQASM 2.0 reader (on the OpenQASM project's reference parser `openqasm3`, which accepts
2.0 programs), the renderer of abstract OpenQASM 3 programs (QasmGen.tla) to text, and the recorder of imported tapes.
Nothing here evaluates a gate: gate semantics live in spec/ir/Qelib1.tla (program side) and spec/ir/Gates.tla (tape side);
this module only converts text <-> the instruction records of spec/trace/Trace_Qasm.tla."""
from __future__ import annotations

import math

import numpy as np
import openqasm3
from openqasm3 import ast

import pennylane as qp

from . import codec
from .codec import OffLattice, rec

# name -> (qubits, parameters): mirror of QArity / QNParams in Qelib1.tla (only used to reject malformed statements
# before they reach TLC)
QTABLE = {"id": (1, 0), "x": (1, 0), "y": (1, 0), "z": (1, 0), "h": (1, 0), "s": (1, 0), "sdg": (1, 0), "t": (1, 0), "tdg": (1, 0),
          "sx": (1, 0), "rx": (1, 1), "ry": (1, 1), "rz": (1, 1), "u1": (1, 1), "p": (1, 1), "phase": (1, 1), "u2": (1, 2), "u3": (1, 3),
          "cx": (2, 0), "CX": (2, 0), "cy": (2, 0), "cz": (2, 0), "ch": (2, 0), "swap": (2, 0), "ccx": (3, 0), "cswap": (3, 0),
          "crx": (2, 1), "cry": (2, 1), "crz": (2, 1), "cu1": (2, 1), "cp": (2, 1), "cphase": (2, 1), "cu3": (2, 3), "cu": (2, 4),
          "gphase": (0, 1)}
ERR_UNIT = 1e-10          # angle errors are handed to TLC as integers in this unit
ERR_CAP = 2_000_000_000


class ReaderError(Exception):
    pass


def _ev(e):
    if isinstance(e, (ast.FloatLiteral, ast.IntegerLiteral)):
        return float(e.value)
    if isinstance(e, ast.UnaryExpression) and e.op.name == "-":
        return -_ev(e.expression)
    if isinstance(e, ast.BinaryExpression) and e.op.name in "+-*/":
        a, b = _ev(e.lhs), _ev(e.rhs)
        return {"+": a + b, "-": a - b, "*": a * b, "/": a / b}[e.op.name]
    if isinstance(e, ast.Identifier) and e.name == "pi":
        return math.pi
    raise ReaderError(f"unsupported expression {type(e).__name__}")


def read_qasm2(text):
    """-> {"qreg": (name, size), "cregs": {name: size}, "stmts": [...], "gphase": count}
    stmt = ("gate", name, [float args], [qubit indices], cond) | ("measure", qubit, creg, cbit)
    cond = None | (creg, cbit, value)"""
    try:
        prog = openqasm3.parser.parse(text)
    except Exception as e:
        raise ReaderError(f"parse error: {e}") from e
    if prog.version != "2.0":
        raise ReaderError(f"version {prog.version}")
    qreg, cregs, stmts, includes, ngph = None, {}, [], [], 0

    def qubit(q):
        if not isinstance(q, ast.IndexedIdentifier) or qreg is None or q.name.name != qreg[0]:
            raise ReaderError("qubit operand is not an element of the declared qreg")
        (ix,), = q.indices
        i = int(_ev(ix))
        if not 0 <= i < qreg[1]:
            raise ReaderError(f"qubit index {i} out of range")
        return i

    def gate(s, cond):
        nonlocal ngph
        if isinstance(s, ast.QuantumPhase):
            if s.modifiers or s.qubits:
                raise ReaderError("modified gphase in a 2.0 program")
            ngph += 1
            return ("gate", "gphase", [_ev(s.argument)], [], cond)
        if not isinstance(s, ast.QuantumGate) or s.modifiers:
            raise ReaderError(f"unsupported statement {type(s).__name__}")
        name = s.name.name
        if name not in QTABLE or name == "gphase":
            raise ReaderError(f"gate {name} is not defined by qelib1.inc")
        args = [_ev(a) for a in s.arguments]
        qs = [qubit(q) for q in s.qubits]
        if (len(qs), len(args)) != QTABLE[name] or len(set(qs)) != len(qs):
            raise ReaderError(f"malformed call of {name}")
        return ("gate", name, args, qs, cond)

    for s in prog.statements:
        if isinstance(s, ast.Include):
            includes.append(s.filename)
        elif isinstance(s, ast.QubitDeclaration):
            if qreg is not None:
                raise ReaderError("second qreg")
            qreg = (s.qubit.name, int(s.size.value))
        elif isinstance(s, ast.ClassicalDeclaration) and isinstance(s.type, ast.BitType):
            cregs[s.identifier.name] = int(s.type.size.value)
        elif isinstance(s, ast.QuantumMeasurementStatement):
            t = s.target
            if not isinstance(t, ast.IndexedIdentifier) or t.name.name not in cregs:
                raise ReaderError("measurement target is not a declared creg element")
            (ix,), = t.indices
            c = int(_ev(ix))
            if not 0 <= c < cregs[t.name.name]:
                raise ReaderError("classical bit out of range")
            stmts.append(("measure", qubit(s.measure.qubit), t.name.name, c))
        elif isinstance(s, ast.BranchingStatement):
            cnd = s.condition
            if s.else_block or not (isinstance(cnd, ast.BinaryExpression) and cnd.op.name == "==" and
                                    isinstance(cnd.lhs, ast.IndexExpression) and cnd.lhs.collection.name in cregs):
                raise ReaderError("unsupported if statement")
            cond = (cnd.lhs.collection.name, int(_ev(cnd.lhs.index[0])), int(_ev(cnd.rhs)))
            for g in s.if_block:
                stmts.append(gate(g, cond))
        else:
            stmts.append(gate(s, None))
    if includes != ["qelib1.inc"]:
        raise ReaderError(f"includes {includes}")
    return {"qreg": qreg, "cregs": cregs, "stmts": stmts, "gphase": ngph}


def lattice(theta, M):
    """float -> (nearest lattice int, |error| as an integer multiple of ERR_UNIT)"""
    u = 4.0 * math.pi / (1 << M)
    a = round(theta / u)
    return int(a), min(int(abs(theta - a * u) / ERR_UNIT), ERR_CAP)


def tolerance(a, M, precision):
    """admissible |printed - exact| for lattice angle a printed with `precision` significant digits (None: repr), as an
    integer multiple of ERR_UNIT (rounded up)."""
    if precision is None:
        return int(1e-6 / ERR_UNIT)
    th = abs(a * 4.0 * math.pi / (1 << M))
    if th == 0:
        return 1
    e = math.floor(math.log10(th))
    return int(0.5 * 10.0 ** (e - precision + 1) / ERR_UNIT) + 1


def ins(kind, g=None, cw=(), cv=(), w=0, anc=0, pe=(), tol=(), els=False):
    return {"k": kind, "g": g if g is not None else {"q": "id", "p": [], "w": [], "mods": []}, "cw": list(cw), "cv": [list(v) for v in cv],
            "w": w, "anc": anc, "pe": list(pe), "tol": list(tol), "els": els}


def program_side(rd, M, precision, terminal="c"):
    """reader output -> (program-side instructions, terminal measurements [[qubit, cbit]], number of mid-circuit
    measurements, problems).  Measurements into the register `terminal` are the terminal ones (they must not be followed
    by an operation on the same qubit); every other measurement is a mid-circuit measurement owning a fresh ancilla."""
    out, mp, latest, k, problems = [], [], {}, 0, []
    measured_terminally = set()
    for st in rd["stmts"]:
        if st[0] == "measure":
            _, q, creg, c = st
            if creg == terminal:
                mp.append([q, c])
                measured_terminally.add(q)
            else:
                if q in measured_terminally:
                    problems.append("operation after a terminal measurement")
                k += 1
                latest[(creg, c)] = k
                out.append(ins("m", w=q + 1, anc=k))
            continue
        _, name, args, qs, cond = st
        if measured_terminally & set(qs):
            problems.append("operation after a terminal measurement")
        cw, cv = [], []
        if cond is not None:
            if (cond[0], cond[1]) not in latest or cond[2] not in (0, 1):
                raise ReaderError("condition on a bit that was never measured")
            cw, cv = [latest[(cond[0], cond[1])]], [[cond[2]]]
        lat = [lattice(t, M) for t in args]
        out.append(ins("q", {"q": name, "p": [a for a, _ in lat], "w": [q + 1 for q in qs], "mods": []}, cw, cv,
                       pe=[e for _, e in lat], tol=[tolerance(a, M, precision) for a, _ in lat]))
    return out, mp, k, problems


# --------------------------------------------------------------------------------------- tape side
def gate_ins(r, cw=(), cv=()):
    return ins("g", r, cw, cv)


def _addmod(r, md):
    return dict(r, mods=list(r["mods"]) + [md])


def encode_op_seq(op, wpos, M):
    """PennyLane operator -> list of Gates.tla records in application order.  Products are unfolded by their documented
    meaning (A @ B applies B first); wrappers distribute over the unfolded factors."""
    if isinstance(op, qp.ops.Prod):
        out = []
        for o in reversed(op.operands):
            out += encode_op_seq(o, wpos, M)
        return out
    if hasattr(op, "base") and hasattr(op, "z") and (codec.is_pow(op) or "**" in op.name):
        # (tested before the adjoint: the power of an adjoint is named "Adjoint(...)**z")
        z = op.z
        if not float(z).is_integer():
            raise OffLattice(f"non-integer power {z}")
        z = int(z)
        inner = encode_op_seq(op.base, wpos, M)
        if len(inner) == 1:
            return [_addmod(inner[0], {"t": "pow", "z": z})]
        if z < 0:
            inner = [_addmod(r, {"t": "adj"}) for r in reversed(inner)]
        return inner * abs(z)
    if codec.is_adjoint(op):
        return [_addmod(r, {"t": "adj"}) for r in reversed(encode_op_seq(op.base, wpos, M))]
    if codec.is_ctrl(op) and op.name not in codec.KNOWN:
        cws = [wpos[w] for w in op.control_wires]
        cvs = [int(bool(v)) for v in op.control_values]
        return [dict(r, w=cws + r["w"], mods=list(r["mods"]) + [{"t": "ctrl", "cv": cvs}]) for r in encode_op_seq(op.base, wpos, M)]
    if op.name == "GlobalPhase":
        return [rec("GlobalPhase", [], [codec._lat(op.data[0], M)])]       # a scalar: no wire
    r = codec.encode_op(op, wpos, M)
    return [] if r is None else [r]


def encode_tape(tape, wpos, M):
    """imported tape -> (tape-side instructions, number of mid-circuit measurements)"""
    out, anc = [], {}
    for op in tape.operations:
        if isinstance(op, qp.ops.MidMeasure):
            if op.postselect is not None:
                raise OffLattice("postselection")
            anc[op] = len(anc) + 1
            out.append(ins("r" if op.reset else "m", w=wpos[op.wires[0]], anc=anc[op]))
        elif isinstance(op, qp.ops.Conditional):
            mv = op.meas_val
            ms = list(mv.measurements)
            cw = [anc[m] for m in ms]
            import itertools
            cv = [list(bits) for bits in itertools.product((0, 1), repeat=len(ms)) if bool(mv.processing_fn(*bits))]
            for r in encode_op_seq(op.base, wpos, M):
                out.append(gate_ins(r, cw, cv))
        else:
            for r in encode_op_seq(op, wpos, M):
                out.append(gate_ins(r))
    return out, len(anc)


# --------------------------------------------------------------------------------------- rendering OpenQASM 3
def _frac(a, M, style):
    """spelling of the lattice angle a (theta = a*4pi/2^M) : 0 decimal, 1 pi-fraction, 2 tau-fraction, 3 unicode pi"""
    den = (1 << M) // 4            # theta = a*pi/den
    if style == 0:
        return repr(a * math.pi / den)
    g = math.gcd(abs(a), den) if a else den
    num, d = a // g, den // g
    if style == 2:
        d *= 2
        g2 = math.gcd(abs(num), d) if num else d
        num, d = num // g2, d // g2
    sym = {1: "pi", 2: "tau", 3: "π"}[style]
    if num == 0:
        return "0"
    s = sym if abs(num) == 1 else f"{abs(num)}*{sym}"
    if d != 1:
        s += f"/{d}"
    return ("-" if num < 0 else "") + s


def render_qasm3(p, M, rng, layout=None, wire_map=None):
    """abstract program (QasmGen.tla) -> (text, qubit names by position)."""
    n, has_meas = p["n"], any(i["k"] in ("m", "r") for i in p["b"])
    if layout is None:
        layout = "named" if has_meas or rng.random() < 0.5 else "reg"
    if layout == "reg":
        qn = [f"q[{i}]" for i in range(n)]
        lines = [f"qubit[{n}] q;"]
    else:
        qn = [f"q{i}" for i in range(n)]
        lines = [f"qubit {x};" for x in qn]
    if rng.random() < 0.5:
        lines.insert(0, "OPENQASM 3.0;")
    for i in range(p["k"]):
        lines.append(f"bit c{i + 1};")
    nvar = 0

    def gate_text(g):
        nonlocal nvar
        mods = []
        for md in reversed(g["mods"]):
            mods.append({"adj": "inv @ ", "pow": f"pow({md.get('z', 0)}) @ ", "ctrl": "ctrl @ " if md.get("cv") == [1] else "negctrl @ "}[md["t"]])
        args = []
        for a in g["p"]:
            style = rng.choice([0, 1, 1, 2, 3, 4])
            if style == 4:           # through a classical variable declared before use
                nvar += 1
                kw = rng.choice(["float", "const float"])
                lines.append(f"{kw} th{nvar} = {_frac(a, M, rng.choice([0, 1]))};")
                args.append(f"th{nvar}")
            else:
                args.append(_frac(a, M, style))
        arg = f"({', '.join(args)})" if args else ""
        qs = " " + ", ".join(qn[w - 1] for w in g["w"]) if g["w"] else ""
        return f"{''.join(mods)}{g['q']}{arg}{qs};"

    body, i = [], 0
    b = p["b"]
    while i < len(b):
        it = b[i]
        if it["k"] == "m":
            body.append(f"c{it['anc']} = measure {qn[it['w'] - 1]};" if rng.random() < 0.5 else f"measure {qn[it['w'] - 1]} -> c{it['anc']};")
        elif it["k"] == "r":
            body.append(f"reset {qn[it['w'] - 1]};")
        elif not it["cw"]:
            body.append(gate_text(it["g"]))
        else:
            bit, v = f"c{it['cw'][0]}", it["cv"][0][0]
            if i + 1 < len(b) and b[i + 1].get("els"):
                t1 = gate_text(it["g"])
                t2 = gate_text(b[i + 1]["g"])
                body.append(f"if ({bit}) {{ {t1} }} else {{ {t2} }}")
                i += 1
            else:
                cnd = f"{bit} == 0" if v == 0 else rng.choice([bit, f"{bit} == 1"])
                body.append(f"if ({cnd}) {{ {gate_text(it['g'])} }}")
        i += 1
    # declarations of angle variables were appended to `lines` while rendering: they precede the body
    return "\n".join(lines + body) + "\n", qn, layout
