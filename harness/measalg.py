"""Measurement algebra shared by C20 (measurement splitting / diagonalisation) and C33 (device preprocessing).

Nothing here calls PennyLane's own evaluation code (pauli_rep, matrix(), process_state ...): observables are decoded
structurally (class + operands + data) into Pauli sentences {word tuple: coefficient}, or applied numerically to a state
vector that TLC computed exactly.  The exact values (Pauli-word expectations, probabilities, states) come from
spec/trace/TapeEval.tla; spec/sys/MeasSplit.tla decides the exact identities (see `trace_tape`, `linear_probe`).

word        tuple of letters 0..3 (I, X, Y, Z) over wire positions 1..n
sentence    {word: complex}
"""
from __future__ import annotations

import numpy as np

import pennylane as qp

import json

from . import bridge, lib, tapeeval
from .codec import OffLattice, encode_op
from .paulis import to_gd

LET = "IXYZ"


class NonPauli(Exception):
    """the observable is not a linear combination of Pauli words (Hermitian, Projector, Hadamard ...)."""


# ------------------------------------------------------------------------------------------------ Pauli arithmetic
def letter_mul(a, b):
    """(phase exponent p, letter) with  a * b = i**p * letter."""
    if a == 0:
        return 0, b
    if b == 0 or a == b:
        return 0, (a if b == 0 else 0)
    return (1 if (b - a) % 3 == 1 else 3), 6 - a - b


def word_mul(u, v):
    p, w = 0, []
    for a, b in zip(u, v):
        q, l = letter_mul(a, b)
        p += q
        w.append(l)
    return p % 4, tuple(w)


def sent_add(a, b, cb=1):
    out = dict(a)
    for w, c in b.items():
        out[w] = out.get(w, 0) + cb * c
    return out


def sent_mul(a, b):
    out = {}
    for u, cu in a.items():
        for v, cv in b.items():
            p, w = word_mul(u, v)
            out[w] = out.get(w, 0) + (1j ** p) * cu * cv
    return out


def _num(c):
    c = qp.math.unwrap([c])[0] if not isinstance(c, (int, float, complex, np.generic)) else c
    c = complex(np.asarray(c).item())
    return c


def decode_obs(op, wpos, n):
    """PennyLane observable -> sentence, structurally.  Raises NonPauli for anything that is not built from X, Y, Z, Identity
    with SProd / Prod / Sum / LinearCombination."""
    name = type(op).__name__
    if name in ("PauliX", "PauliY", "PauliZ", "X", "Y", "Z"):
        w = [0] * n
        w[wpos[op.wires[0]] - 1] = {"PauliX": 1, "PauliY": 2, "PauliZ": 3, "X": 1, "Y": 2, "Z": 3}[name]
        return {tuple(w): 1 + 0j}
    if name in ("Identity", "I"):
        return {tuple([0] * n): 1 + 0j}
    if name == "SProd":
        base = decode_obs(op.base, wpos, n)
        c = _num(op.scalar)
        return {w: c * v for w, v in base.items()}
    if name == "Prod":
        out = {tuple([0] * n): 1 + 0j}
        for f in op.operands:
            out = sent_mul(out, decode_obs(f, wpos, n))
        return out
    if name in ("LinearCombination", "Hamiltonian"):
        out = {}
        for c, o in zip(op.coeffs, op.ops):
            out = sent_add(out, decode_obs(o, wpos, n), _num(c))
        return out
    if name == "Sum":
        out = {}
        for o in op.operands:
            out = sent_add(out, decode_obs(o, wpos, n))
        return out
    raise NonPauli(name)


def clean(sent, tol=0.0):
    return {w: c for w, c in sent.items() if abs(c) > tol}


# ------------------------------------------------------------------------------------------------ numeric application
def _leaf_matrix(op):
    name = type(op).__name__
    if name in ("PauliX", "X"):
        return bridge.X
    if name in ("PauliY", "Y"):
        return bridge.Y
    if name in ("PauliZ", "Z"):
        return bridge.Z
    if name == "Hadamard":
        return bridge.H
    if name == "Hermitian":
        return np.asarray(op.data[0], dtype=complex)
    if name in ("Projector", "BasisStateProjector"):
        bits = [int(b) for b in np.asarray(op.data[0]).reshape(-1)]
        d = 1 << len(op.wires)
        if len(bits) == len(op.wires):
            m = np.zeros((d, d), dtype=complex)
            i = int("".join(str(b) for b in bits), 2)
            m[i, i] = 1
            return m
    if name == "StateVectorProjector" or (name == "Projector" and len(np.asarray(op.data[0]).reshape(-1)) == 1 << len(op.wires)):
        v = np.asarray(op.data[0], dtype=complex).reshape(-1)
        return np.outer(v, v.conj())
    raise NonPauli(f"no numeric rule for {name}")


def obs_apply(op, psi, wpos, n):
    """O |psi>  for a structurally decoded observable (psi: vector of length 2^n, wire position 1 most significant)."""
    name = type(op).__name__
    if name in ("Identity", "I"):
        return psi
    if name == "SProd":
        return _num(op.scalar) * obs_apply(op.base, psi, wpos, n)
    if name == "Prod":
        out = psi
        for f in reversed(op.operands):
            out = obs_apply(f, out, wpos, n)
        return out
    if name in ("LinearCombination", "Hamiltonian"):
        return sum(_num(c) * obs_apply(o, psi, wpos, n) for c, o in zip(op.coeffs, op.ops))
    if name == "Sum":
        return sum(obs_apply(o, psi, wpos, n) for o in op.operands)
    m = _leaf_matrix(op)
    return bridge.apply(psi.reshape(-1, 1), m, [wpos[w] for w in op.wires], n).reshape(-1)


def probs_of(psi, wires, n):
    p = np.abs(np.asarray(psi).reshape([2] * n)) ** 2
    keep = [w - 1 for w in wires]
    rest = tuple(i for i in range(n) if i not in keep)
    p = p.sum(axis=rest) if rest else p
    order = sorted(keep)
    p = np.transpose(p, [order.index(k) for k in keep]) if len(keep) > 1 else p
    return p.reshape(-1)


# ------------------------------------------------------------------------------------------------ measurement records
def describe_mp(mp, wpos, n, all_wires=None):
    """measurement process -> descriptor {"t": expval|var|probs|sample|state|other, "sent": sentence|None, "w": positions,
    "op": observable|None, "sup": support positions}"""
    name = type(mp).__name__
    t = {"ExpectationMP": "expval", "VarianceMP": "var", "ProbabilityMP": "probs", "SampleMP": "sample", "StateMP": "state",
         "CountsMP": "counts"}.get(name, "other")
    d = {"t": t, "sent": None, "w": [], "op": mp.obs, "sup": [], "cls": name}
    if mp.obs is not None:
        d["sup"] = sorted(wpos[w] for w in mp.obs.wires)
        if t in ("expval", "var"):
            try:
                d["sent"] = clean(decode_obs(mp.obs, wpos, n))
            except NonPauli:
                d["sent"] = None
        elif t not in ("sample", "counts"):
            d["t"] = "other"
    else:
        ws = list(mp.wires) if len(mp.wires) else list(all_wires if all_wires is not None else [])
        d["w"] = [wpos[w] for w in ws]
        d["sup"] = sorted(d["w"])
    if getattr(mp, "mv", None) is not None:
        d["t"] = "other"
    return d


def requests(desc):
    """TapeEval requests (words, probability wire lists) needed by a list of measurement descriptors."""
    words, pws = [], []
    for d in desc:
        if d["sent"] is not None:
            ws = list(d["sent"])
            words += ws
            if d["t"] == "var":
                words += [word_mul(u, v)[1] for u in ws for v in ws]
        if d["t"] in ("probs", "sample", "counts") and d["op"] is None:
            pws.append(tuple(d["w"]))
    seen, uw = set(), []
    for w in words:
        if w not in seen:
            seen.add(w)
            uw.append(w)
    seenp, up = set(), []
    for w in pws:
        if w not in seenp:
            seenp.add(w)
            up.append(w)
    return uw, up


def tlc_requests(words, pws, state=True):
    req = [{"t": "state"}] if state else []
    req += [{"t": "expval", "pw": list(w)} for w in words]
    req += [{"t": "probs", "w": list(w)} for w in pws]
    return req


class Exact:
    """exact values of one tape (one broadcast variant) as returned by TapeEval raw mode."""

    def __init__(self, words, pws, raw, M, state=True, weight=1.0):
        self.M = M
        off = 1 if state else 0
        self.raw_state = raw[0] if state else None
        self.rw = {w: raw[off + i][0] for i, w in enumerate(words)}
        self.rp = {w: raw[off + len(words) + i] for i, w in enumerate(pws)}
        self.weight = weight
        self._psi = None

    def f(self, x):
        return lib.ring_to_complex(x["c"], x["k"], self.M)

    def word(self, w):
        return float(self.f(self.rw[tuple(w)]).real) / self.weight

    def probs(self, w):
        return np.array([float(self.f(x).real) for x in self.rp[tuple(w)]]) / self.weight

    @property
    def psi(self):
        if self._psi is None:
            self._psi = np.array([self.f(x) for x in self.raw_state])
        return self._psi


class Numeric:
    """same interface on a numerically evaluated state (circuits with off-lattice angles: harness/bridge.py)."""

    def __init__(self, psi, n):
        self.psi, self.n = np.asarray(psi).reshape(-1), n

    def word(self, w):
        phi = bridge.apply(self.psi.reshape(-1, 1), bridge.pauli_word(list(w)), list(range(1, self.n + 1)), self.n).reshape(-1)
        return float(np.real(np.vdot(self.psi, phi)))

    def probs(self, w):
        return probs_of(self.psi, list(w), self.n)


def value(d, ev, wpos, n):
    """value of one described measurement on one evaluated tape variant."""
    if d["t"] in ("expval", "var"):
        if d["sent"] is not None:
            e = sum(c * ev.word(w) for w, c in d["sent"].items())
            if d["t"] == "expval":
                return float(np.real(e))
            e2 = sum(c * ev.word(w) for w, c in sent_mul(d["sent"], d["sent"]).items())
            return float(np.real(e2) - np.real(e) ** 2)
        psi = ev.psi
        phi = obs_apply(d["op"], psi, wpos, n)
        e = np.real(np.vdot(psi, phi))
        return float(e) if d["t"] == "expval" else float(np.real(np.vdot(phi, phi)) - e ** 2)
    if d["t"] == "probs":
        return ev.probs(d["w"])
    if d["t"] == "state":
        return ev.psi
    raise NonPauli(f"no value rule for measurement {d['cls']}")


# ------------------------------------------------------------------------------------------------ tapes <-> records
def variants_of(tape):
    """unbatched operation lists of a (possibly broadcast) tape, built without PennyLane's broadcast_expand."""
    B = tape.batch_size
    if not B:
        return [list(tape.operations)]
    out = []
    for v in range(B):
        ops = []
        for op in tape.operations:
            if getattr(op, "batch_size", None):
                data = [np.asarray(d)[v] if np.ndim(d) > op.ndim_params[i] else d for i, d in enumerate(op.data)]
                if op.name == "PauliRot":
                    ops.append(qp.PauliRot(data[0], op.hyperparameters["pauli_word"], wires=op.wires))
                else:
                    ops.append(type(op)(*data, wires=op.wires))
            else:
                ops.append(op)
        out.append(ops)
    return out


def float_record(op, wpos):
    """bridge record (float parameters) for an operator of the reference table with off-lattice parameters."""
    from .codec import KNOWN, is_adjoint, is_ctrl, is_pow, rec
    if is_adjoint(op):
        r = float_record(op.base, wpos)
        r["mods"] = r["mods"] + [{"t": "adj"}]
        return r
    if is_pow(op) and float(op.z).is_integer():
        r = float_record(op.base, wpos)
        r["mods"] = r["mods"] + [{"t": "pow", "z": int(op.z)}]
        return r
    if is_ctrl(op) and op.name not in KNOWN:
        r = float_record(op.base, wpos)
        r["w"] = [wpos[w] for w in op.control_wires] + r["w"]
        r["mods"] = r["mods"] + [{"t": "ctrl", "cv": [int(bool(v)) for v in op.control_values]}]
        return r
    w = [wpos[x] for x in op.wires]
    if op.name in ("QubitUnitary", "DiagonalQubitUnitary"):
        mat = np.asarray(op.data[0], dtype=complex)
        return dict(rec("MAT", w), fm=np.diag(mat) if op.name == "DiagonalQubitUnitary" else mat)
    x = [{"I": 0, "X": 1, "Y": 2, "Z": 3}[c] for c in op.hyperparameters.get("pauli_word", "")] if op.name == "PauliRot" else []
    if op.name == "MultiControlledX":
        x = [int(bool(v)) for v in op.control_values]
    if op.name not in KNOWN:
        raise OffLattice(f"bridge has no entry for {op.name}")
    return dict(rec(op.name, w, [], x), fp=[float(np.real(qp.math.unwrap([d])[0])) for d in op.data])


def encode_one(op, wpos, M):
    """codec.encode_op plus the power classes whose name is not of the form Pow(...) (Identity**z in this tree)."""
    if type(op).__name__ in ("PowOperation", "Pow", "PowOpObs") and hasattr(op, "base") and not op.name.startswith("Pow("):
        z = op.z
        if not float(z).is_integer():
            raise OffLattice(f"non-integer power {z}")
        r = encode_one(op.base, wpos, M)
        r["mods"] = r["mods"] + [{"t": "pow", "z": int(z)}]
        return r
    return encode_op(op, wpos, M)


def encode_exact(ops, wpos, M):
    return [r for r in (encode_one(op, wpos, M) for op in ops) if r is not None]


def encode_ops_mixed(ops, wpos, M):
    """-> (exact records | None, bridge records).  exact is None when some parameter is off the lattice."""
    exact, flt, ok = [], [], True
    for op in ops:
        if op.name in ("Barrier", "Snapshot"):
            continue
        try:
            r = encode_one(op, wpos, M)
            if r is not None:
                exact.append(r)
                flt.append(r)
        except OffLattice:
            ok = False
            flt.append(float_record(op, wpos))
    return (exact if ok else None), flt


def bridge_state(flt, n, M, init=None):
    psi = np.zeros((1 << n, 1), dtype=complex)
    psi[0, 0] = 1
    if init is not None:
        psi = np.asarray(init, dtype=complex).reshape(-1, 1)
    for r in flt:
        psi = bridge.apply(psi, bridge.gate_matrix(r, M, r.get("fp"), r.get("fm")), r["w"], n)
    return psi.reshape(-1)


# ------------------------------------------------------------------------------------------------ results and probing
def flatten(res, nmeas):
    """result of one tape (tuple over measurements unless there is exactly one) -> flat float vector + shapes."""
    items = list(res) if nmeas != 1 else [res]
    parts = [np.asarray(x, dtype=complex).reshape(-1) for x in items]
    return np.concatenate(parts) if parts else np.zeros(0, dtype=complex), [np.shape(np.asarray(x)) for x in items]


def unflatten(vec, shapes, nmeas, dtype=float):
    items, k = [], 0
    for s in shapes:
        size = int(np.prod(s)) if len(s) else 1
        a = np.asarray(vec[k:k + size], dtype=dtype).reshape(s)
        items.append(a if len(s) else dtype(a.reshape(-1)[0]) if dtype is float else a.reshape(-1)[0])
        k += size
    return tuple(items) if nmeas != 1 else items[0]


def linear_probe(fn, results, nmeas_list, n_in_meas):
    """Probe a post-processing function on basis result vectors: returns (A, b, r, shapes_in) with fn(res) = A r + b
    (checked numerically on the actual results), or None when fn is not affine / the probe fails."""
    flats = [flatten(r, k) for r, k in zip(results, nmeas_list)]
    sizes = [len(f[0]) for f in flats]
    r = np.concatenate([f[0] for f in flats]) if flats else np.zeros(0, dtype=complex)
    if np.max(np.abs(r.imag), initial=0.0) > 1e-12:
        return None
    r = r.real

    def call(vec):
        out, k = [], 0
        for (f, shapes), size, nm in zip(flats, sizes, nmeas_list):
            out.append(unflatten(vec[k:k + size], shapes, nm))
            k += size
        return flatten(fn(tuple(out)), n_in_meas)

    try:
        b, shp = call(np.zeros(len(r)))
        A = np.zeros((len(b), len(r)))
        for j in range(len(r)):
            e = np.zeros(len(r))
            e[j] = 1.0
            col, _ = call(e)
            A[:, j] = (col - b).real
        full, _ = call(r)
    except Exception:  # noqa: BLE001
        return None
    if np.max(np.abs(b.imag), initial=0.0) > 1e-12 or not np.allclose(A @ r + b.real, full.real, atol=1e-9):
        return None
    return A, b.real, r, shp


def gd(x):
    g = to_gd(x)
    return None if g is None or g[2] > 20 else g


def trace_tape(desc_list, evs):
    """Trace record of one tape for MeasSplit.tla: the measurement list (sentences with exact dyadic coefficients) and,
    per broadcast variant, the raw exact word expectations / probabilities TLC computed.  None if not representable."""
    meas = []
    for d in desc_list:
        if d["t"] in ("expval", "var") and d["sent"] is not None:
            terms = []
            for w, c in sorted(d["sent"].items()):
                g = to_gd(c)
                if g is None or g[2] > 12 or max(abs(g[0]), abs(g[1])) > 4096:
                    return None
                terms.append({"w": list(w), "c": g})
            meas.append({"t": d["t"], "terms": terms, "w": [], "sup": d["sup"]})
        elif d["t"] == "probs" and d["op"] is None:
            meas.append({"t": "probs", "terms": [], "w": list(d["w"]), "sup": d["sup"]})
        elif d["t"] in ("sample", "counts") and d["op"] is None:
            meas.append({"t": "probs", "terms": [], "w": list(d["w"]), "sup": d["sup"]})
        else:
            meas.append({"t": "other", "terms": [], "w": [], "sup": d["sup"]})
    vs = []
    for ev in evs:
        if not isinstance(ev, Exact):
            return None
        vs.append({"wv": [{"w": list(w), "v": x} for w, x in ev.rw.items()],
                   "pv": [{"w": list(w), "v": list(x)} for w, x in ev.rp.items()]})
    return {"meas": meas, "vars": vs}


def structure_tape(desc_list):
    """measurement structure only (group relation / basis clauses), no values"""
    t = trace_tape(desc_list, [])
    if t is None:
        t = {"meas": [{"t": "other", "terms": [], "w": [], "sup": d["sup"]} for d in desc_list], "vars": []}
    return t


def sparse_rows(A, b):
    """(rows of {"j", "c"}, offsets) with exact dyadic entries, or None"""
    rows, offs = [], []
    for i in range(A.shape[0]):
        row = []
        for j in range(A.shape[1]):
            if A[i, j] != 0.0:
                g = gd(A[i, j])
                if g is None:
                    return None
                row.append({"j": j + 1, "c": g})
        g = gd(b[i])
        if g is None:
            return None
        rows.append(row)
        offs.append(g)
    return rows, offs


# ------------------------------------------------------------------------------------------------ evaluation pool
class EvalPool:
    """TapeEval requests, one per distinct (n, operation records); tapes that share their operations share the evaluation."""

    def __init__(self):
        self.key, self.items = {}, []

    def add(self, n, ops, words, pws, state=True):
        k = json.dumps([n, ops])
        if k not in self.key:
            self.key[k] = len(self.items)
            self.items.append({"n": n, "ops": ops, "words": [], "pws": [], "ws": set(), "ps": set(), "state": state})
        it = self.items[self.key[k]]
        for w in words:
            if tuple(w) not in it["ws"]:
                it["ws"].add(tuple(w))
                it["words"].append(tuple(w))
        for w in pws:
            if tuple(w) not in it["ps"]:
                it["ps"].add(tuple(w))
                it["pws"].append(tuple(w))
        return self.key[k]

    def run(self, pid, M_):
        tc = [{"n": it["n"], "ops": it["ops"], "meas": tlc_requests(it["words"], it["pws"], it["state"])} for it in self.items]
        res, stats = tapeeval.evaluate(pid, tc, M_, raw=True)
        # weight = total squared norm of the surviving branches (1 unless outcomes were postselected / projected away)
        self.ev = [Exact(it["words"], it["pws"], r["meas"], M_, it["state"], weight=sum(w for _, w in r["bw"]))
                   for it, r in zip(self.items, res)]
        return stats


def pl_result(descs, evs, wpos, n, batched):
    vals = []
    for d in descs:
        per = [value(d, ev, wpos, n) for ev in evs]
        vals.append(np.stack([np.asarray(p) for p in per]) if batched else per[0])
    return tuple(vals) if len(vals) != 1 else vals[0]


def same(got, exp, nmeas, tol=1e-8):
    g = list(got) if nmeas != 1 and isinstance(got, (tuple, list)) else [got]
    e = list(exp) if nmeas != 1 else [exp]
    if nmeas != 1 and (not isinstance(got, (tuple, list)) or len(g) != len(e)):
        return False, "result-structure", 0
    for i, (a, b) in enumerate(zip(g, e)):
        try:
            a = np.asarray(qp.math.toarray(a) if not isinstance(a, (float, int, complex, np.ndarray, np.generic)) else a, dtype=complex)
        except Exception:  # noqa: BLE001
            return False, "result-structure", i
        b = np.asarray(b, dtype=complex)
        if a.shape != b.shape:
            if a.size == b.size and np.allclose(a.reshape(-1), b.reshape(-1), atol=tol, rtol=0):
                return False, "result-shape", i
            return False, "result-value", i
        if not np.allclose(a, b, atol=tol, rtol=0):
            return False, "result-value", i
    return True, "", 0


def validate_traces(pid, module, traces, M, chunk=1500):
    """run a trace spec over the records in chunks; -> ({1-based index: (clause, index)}, {"distinct", "generated"})"""
    verd, tot = {}, {"distinct": 0, "generated": 0}
    for off in range(0, len(traces), chunk):
        part = traces[off:off + chunk]
        wd = lib.workdir(pid, f"trace_{off}")
        (wd / "traces.json").write_text(json.dumps(part))
        r = lib.run_tlc(module, lib.cfg(constants={"M": M, "NTRACES": len(part)}), wd, env={"TRACE_FILE": str(wd / "traces.json")})
        lib.require_ok(r, f"{module}@{off}")
        for t in r.tuples:
            if t[0] == "V":
                verd[off + t[1]] = (t[2], t[3])
        tot["distinct"] += r.distinct
        tot["generated"] += r.generated
    if len(verd) != len(traces):
        raise lib.MachineryError(f"verdicts are not total: {len(verd)} of {len(traces)}")
    return verd, tot
