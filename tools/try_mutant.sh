#!/bin/sh
# try_mutant.sh <PID> <mutant dir> [tier]: confirm the demo (clean pass / mutated fail) and run the check against the
# mutated tree WITHOUT touching /repo: the patch is applied in a scratch worktree of /repo's HEAD (/tmp/wt/trial_<PID>)
# which is put first on PYTHONPATH.  Prints DEMO_CLEAN / DEMO_MUT / CHECK exit codes.  Worktree removed afterwards.
PID=$1; D=$2; TIER=${3:-quick}
WT=/tmp/wt/trial_$PID
git -C /repo worktree remove --force $WT >/dev/null 2>&1
mkdir -p /tmp/wt && git -C /repo worktree add --detach $WT HEAD >/dev/null 2>&1 || { echo "cannot create worktree"; exit 2; }
cd $WT || exit 2
PYTHONPATH=$WT /venv/bin/python -W ignore $D/demo.py >/dev/null 2>&1; echo "DEMO_CLEAN=$?"
git apply $D/patch.diff || { echo "patch does not apply"; git -C /repo worktree remove --force $WT; exit 2; }
PYTHONPATH=$WT /venv/bin/python -W ignore $D/demo.py >/dev/null 2>&1; echo "DEMO_MUT=$?"
( cd /verif && PYTHONPATH=$WT ./check $PID --tier $TIER > /tmp/try_$PID.log 2>&1; echo "CHECK=$?" )
cd /; git -C /repo worktree remove --force $WT
grep -E "^(VIOLATION|KNOWN|MACHINERY|OK)" /tmp/try_$PID.log | head -3
grep -E "^  " /tmp/try_$PID.log | head -2 | cut -c1-300
