#!/bin/sh
# try_mutant.sh <PID> <mutant dir> [tier]: confirm the demo (clean pass / mutated fail), run the check against the
# mutated /repo, restore /repo.  Prints DEMO_CLEAN/DEMO_MUT/CHECK exit codes.
PID=$1; D=$2; TIER=${3:-quick}
cd /repo || exit 2
if [ -n "$(git status --porcelain -- pennylane | head -1)" ]; then echo "repo not clean"; exit 2; fi
/venv/bin/python -W ignore $D/demo.py >/dev/null 2>&1; echo "DEMO_CLEAN=$?"
git apply $D/patch.diff || { echo "patch does not apply"; exit 2; }
/venv/bin/python -W ignore $D/demo.py >/dev/null 2>&1; echo "DEMO_MUT=$?"
( cd /verif && ./check $PID --tier $TIER > /tmp/try_$PID.log 2>&1; echo "CHECK=$?" )
git checkout -- pennylane
grep -E "^(VIOLATION|KNOWN|MACHINERY|OK)" /tmp/try_$PID.log | head -3
grep -E "^  " /tmp/try_$PID.log | head -2 | cut -c1-300
