#!/bin/sh
# mkwt.sh <name>: scratch worktree of /repo HEAD under /tmp/wt/<name>
mkdir -p /tmp/wt && git -C /repo worktree add --detach /tmp/wt/$1 HEAD >/dev/null 2>&1 && echo /tmp/wt/$1
