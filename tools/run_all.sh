#!/bin/sh
# run_all.sh [tier] [ids...]: run every accepted check (harness/ready.txt) sequentially; table of rc / wall / cpu seconds.
cd /verif || exit 2
TIER=${1:-quick}; shift
IDS=${*:-$(cat harness/ready.txt)}
printf "%-5s %-3s %7s %8s  %s\n" id rc wall_s cpu_s verdict
for c in $IDS; do
  s=$(date +%s)
  /usr/bin/time -f "%U %S" -o /tmp/time_$c ./check $c --tier $TIER > /tmp/runall_$c.log 2>&1; rc=$?
  w=$(( $(date +%s) - s )); cpu=$(awk '{printf "%d", $1+$2}' /tmp/time_$c)
  printf "%-5s %-3s %7s %8s  %s\n" $c $rc $w $cpu "$(grep -E '^(OK|VIOLATION|MACHINERY)' /tmp/runall_$c.log | head -1 | cut -c1-80)"
done
