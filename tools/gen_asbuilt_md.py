#!/usr/bin/env python3
"""Regenerate the as-built per-property table of DESIGN.md (between <!-- ASBUILT:BEGIN/END -->) from harness/registry.d,
harness/ready.txt, known_findings.json and seeded/*/meta.json."""
import glob, json, os, re
R = "/verif"
ready = set(open(f"{R}/harness/ready.txt").read().split())
props = [json.loads(l) for l in open(f"{R}/properties.jsonl") if l.strip()]
kf = json.load(open(f"{R}/known_findings.json"))["findings"]
seed = {}
for m in glob.glob(f"{R}/seeded/*/meta.json"):
    d = json.load(open(m))
    s = seed.setdefault(d["property"], [0, 0])
    s[1] += 1
    s[0] += d.get("detected_by_check") == "yes"
man = json.load(open(f"{R}/MANIFEST.json"))
na = {x["property_id"]: x["reason"] for x in man["not_applicable"]}
tim = json.load(open(f"{R}/tools/quick_timings.json"))["checks"] if os.path.exists(f"{R}/tools/quick_timings.json") else {}
rows = ["| id | title | status | level | technique (one line; full text in MANIFEST.json / registry.d) | defects fixed / open | seeded caught / tried | quick wall / cpu s |", "|---|---|---|---|---|---|---|---|"]
for p in props:
    pid = p["id"]
    f = f"{R}/harness/registry.d/{pid}.json"
    fx = sum(1 for k in kf if k["property"] == pid and k["status"] == "fixed")
    op = sum(1 for k in kf if k["property"] == pid and k["status"] == "open")
    sd = seed.get(pid)
    if pid in ready and os.path.exists(f):
        r = json.load(open(f))
        tech = re.sub(r"\s+", " ", r["technique"]).replace("|", "/")
        tech = tech if len(tech) <= 230 else tech[:227] + "..."
        rows.append(f"| {pid} | {p['title']} | claimed | {r['level']} | {tech} | {fx} / {op} | {f'{sd[0]} / {sd[1]}' if sd else '-'} | {str(tim[pid]['wall_s']) + ' / ' + str(tim[pid]['cpu_s']) if pid in tim else '-'} |")
    else:
        rows.append(f"| {pid} | {p['title']} | not applicable | - | {na.get(pid, '')[:230].replace('|', '/')} | - | - | - |")
txt = "\n".join(rows)
p = f"{R}/DESIGN.md"
s = open(p).read()
b, e = "<!-- ASBUILT:BEGIN -->", "<!-- ASBUILT:END -->"
assert b in s and e in s
s = s[: s.index(b) + len(b)] + "\n" + txt + "\n" + s[s.index(e):]
open(p, "w").write(s)
print(len(rows) - 2, "rows")
