#!/usr/bin/env python3
"""Regenerate the seeded-change table of DESIGN.md (between <!-- SEEDED:BEGIN/END -->) from seeded/*/meta.json."""
import glob, json, re
R = "/verif"
rows = ["| seeded change | needs (abridged) | caught | how / note |", "|---|---|---|---|"]
tot = {}
for m in sorted(glob.glob(f"{R}/seeded/*/meta.json")):
    d = json.load(open(m))
    name = m.split("/")[-2]
    clean = lambda t, n: (re.sub(r"\s+", " ", str(t)).replace("|", "/")[:n] + ("..." if len(str(t)) > n else ""))
    c = d.get("detected_by_check", "?")
    t = tot.setdefault(d["property"], [0, 0]); t[1] += 1; t[0] += c == "yes"
    rows.append(f"| {name} | {clean(d.get('needs', ''), 170)} | {'**no**' if c != 'yes' else 'yes'} | {clean(d.get('check_note', ''), 200)} |")
summ = ", ".join(f"{k} {v[0]}/{v[1]}" for k, v in sorted(tot.items()))
txt = f"Totals (caught / tried): {summ}; overall {sum(v[0] for v in tot.values())}/{sum(v[1] for v in tot.values())}.\n\n" + "\n".join(rows)
p = f"{R}/DESIGN.md"; s = open(p).read()
b, e = "<!-- SEEDED:BEGIN -->", "<!-- SEEDED:END -->"
assert b in s and e in s
s = s[: s.index(b) + len(b)] + "\n" + txt + "\n" + s[s.index(e):]
open(p, "w").write(s)
print(summ)
