#!/usr/bin/env python3
import json,sys
for l in open('/verif/properties.jsonl'):
    p=json.loads(l)
    if p['id'] in sys.argv[1:]:
        print(json.dumps(p,indent=1))
