#!/usr/bin/env python3
"""Regenerate the status paragraph of DESIGN.md section 12 (between <!-- STATUS:BEGIN/END -->)."""
import glob, json, subprocess
R = "/verif"
man = json.load(open(f"{R}/MANIFEST.json"))
kf = json.load(open(f"{R}/known_findings.json"))["findings"]
fx = [f for f in kf if f["status"] == "fixed"]; op = [f for f in kf if f["status"] == "open"]
seeded = [json.load(open(m)) for m in glob.glob(f"{R}/seeded/*/meta.json")]
caught = sum(1 for d in seeded if d.get("detected_by_check") == "yes")
nfix = subprocess.run("git -C /repo log --oneline | grep -c ' fix:'", shell=True, capture_output=True, text=True).stdout.strip()
nspec = len(glob.glob(f"{R}/spec/*/*.tla"))
txt = f"""**Status at the last regeneration.** {len(man['checks'])} of 74 properties are claimed (one registered check each, quick and
thorough tier), {len(man['not_applicable'])} are listed as not applicable (C48, C62, C63; section 9). The specification has {nspec} TLA+ modules.
On the pinned tree the checks found {len(kf)} genuine defect families in PennyLane: {len(fx)} were repaired by {nfix} minimal `fix:` commits in
/repo (each check passes on the repaired tree and reports the violation again if it returns), {len(op)} are recorded as open known
findings (12.4; each is keyed on its failing call site so that a different violation of the same property is still reported).
{len(seeded)} seeded changes written by independent sub-agents were tried against the checks: {caught} are caught ({len(seeded) - caught} still missed, listed
in 12.5 as known blind spots); most of the catches required extending a check to an input class its first version did not reach."""
p = f"{R}/DESIGN.md"; s = open(p).read()
b, e = "<!-- STATUS:BEGIN -->", "<!-- STATUS:END -->"
assert b in s and e in s
s = s[: s.index(b) + len(b)] + "\n" + txt + "\n" + s[s.index(e):]
open(p, "w").write(s)
print(txt)
