#!/usr/bin/env python3
"""Print the prompt for a mutant-writing sub-agent: property text + worktree only (nothing from /verif)."""
import json, sys
pid, wt = sys.argv[1], sys.argv[2]
extra = sys.argv[3] if len(sys.argv) > 3 else ""
p = next(json.loads(l) for l in open('/verif/properties.jsonl') if json.loads(l)['id'] == pid)
print(f"""You are helping evaluate a verification tool for the Python library PennyLane (quantum programming framework).
You have your own scratch git worktree of the library at {wt} (a checkout of the pinned commit). Work ONLY inside {wt} and /tmp/mut_{pid}/ (create it). Do NOT read or write anything under /verif or /repo — in particular never look at /verif.

Run Python as:  cd {wt} && PYTHONPATH={wt} /venv/bin/python ...   (PYTHONPATH makes `import pennylane` use your worktree; verify with `python -c "import pennylane; print(pennylane.__file__)"`).

Here is a semantic property of the library that is supposed to hold for every input:

  id: {p['id']}
  title: {p['title']}
  statement: {p['statement']}
  quantified over: {p['quantifier']['text']}
  why the existing tests cannot settle it: {p['why_tests_cant']}
  code it is anchored in: {json.dumps(p['anchors']['files'])}
  mechanism: {json.dumps(p['anchors']['mechanism'])}

YOUR TASK: write THREE different, realistic, small source changes to the library (each one independent, each as its own patch against the pinned commit) that BREAK this property while the library still imports and the existing test suite still passes. Think of plausible bugs a maintainer could introduce in a refactor or optimisation: a sign/phase slip on one branch, an off-by-one, a dropped copy, a wrong index/wire order on a rarely used path, a cache key that ignores a field, a special case handled wrongly. IMPORTANT: prefer changes that need something SPECIFIC to manifest — a particular parameter value or range, a particular option, a multi-step sequence of operations, an unusual input shape, a rarely taken branch, or two cooperating sites that each look fine alone — NOT changes that break ordinary use at once (those would be caught by any smoke test). Make the three mutants different in kind and in the code they touch (vary files among the anchored ones). {extra}

For each mutant k in 1..3 produce, under /tmp/mut_{pid}/k/:
  - patch.diff : `git diff` output against the pinned commit (apply-able with `git apply` at the repository root), touching only files under pennylane/
  - demo.py    : a small standalone program that exits 0 on the unmodified library and exits non-zero (assertion failure) with the patch applied. It must demonstrate a violation of the PROPERTY as stated (not merely any behavioural difference).
  - meta.json  : {{"property": "{p['id']}", "summary": "...what was changed...", "needs": "...what specific input/sequence/option is needed for it to manifest...", "files": [...]}}

The existing test suite is 257 documentation examples (Sybil doctests in doc/**/*.rst run via pytest from the repository root; the full command is
  cd {wt} && PYTHONPATH={wt} /venv/bin/python -m pytest -ra -q -p no:cacheprovider --timeout=900 --continue-on-collection-errors -x -q doc/introduction doc/code doc/development 2>&1 | tail -5
— it takes a few minutes, ends with a pre-existing INTERNALERROR/ many pre-existing failures; what matters is that the set of PASSING tests does not shrink). You do not need to run all of it for every mutant: first grep the doc/ tree for uses of what you changed to make sure no documented example's printed output changes, and run the doc files that mention it, e.g. `PYTHONPATH={wt} /venv/bin/python -m pytest -q -p no:cacheprovider doc/introduction/circuits.rst`. Compare pass counts with and without your patch for those files.

Procedure per mutant: make the edit in {wt}, confirm demo.py fails, save `git -C {wt} diff > /tmp/mut_{pid}/k/patch.diff`, then `git -C {wt} checkout -- .` to restore, confirm demo.py passes on the clean tree, and go on to the next. Leave {wt} clean (no modifications) at the end. Do not commit anything.

Final answer: for each mutant, one paragraph: what it changes, what is needed to trigger it, and the results of running demo.py with/without the patch and which doc tests you ran.""")
