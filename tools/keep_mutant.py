#!/usr/bin/env python3
"""keep_mutant.py <PID> <src dir> <name> <caught: yes|no> <check note>: store a confirmed seeded change under /verif/seeded/<name>/"""
import json, shutil, sys, os
pid, src, name, caught, note = sys.argv[1:6]
dst = f"/verif/seeded/{name}"
os.makedirs(dst, exist_ok=True)
shutil.copy(f"{src}/patch.diff", dst); shutil.copy(f"{src}/demo.py", dst)
m = json.load(open(f"{src}/meta.json"))
m.update({"property": pid, "confirmed": "demo.py exits 0 on the pinned tree and non-zero with patch.diff applied (tools/try_mutant.sh); patch applies with git apply",
          "detected_by_check": caught, "check_run": f"./check {pid} --tier quick against a scratch worktree of /repo HEAD with the patch applied (PYTHONPATH), worktree removed afterwards", "check_note": note})
json.dump(m, open(f"{dst}/meta.json", "w"), indent=1)
print("kept", dst)
