#!/usr/bin/env python3
"""Regenerate /verif/MANIFEST.json from harness/registry.py and properties.jsonl."""
import json, sys
sys.path.insert(0, "/verif")
from harness.registry import CHECKS, NOT_APPLICABLE
props = [json.loads(l) for l in open("/verif/properties.jsonl")]
checks = []
for p in props:
    c = CHECKS.get(p["id"])
    if not c:
        continue
    checks.append({"property_id": p["id"], "quick_cmd": f"./check {p['id']} --tier quick",
                   "thorough_cmd": f"./check {p['id']} --tier thorough", "evidence_file": f"/verif/evidence/{p['id']}.json",
                   "replay_cmd_template": f"./check {p['id']} --replay {{path}}", "engine": "tlc",
                   "level_claimed": {"category": c["level"], "text": c["text"], "design_ref": c["design_ref"]},
                   "level_note": c["note"], "technique": c["technique"]})
na = []
for p in props:
    if p["id"] in CHECKS:
        continue
    na.append({"property_id": p["id"], "reason": NOT_APPLICABLE.get(p["id"], "no check built yet: the specification does not cover this property at this commit (planned, see DESIGN.md section 8)")})
man = {"version": 1,
 "setup_cmd": "./setup.sh",
 "hooks": {"guard": "PENNYLANE_VERIF", "enable": "export PENNYLANE_VERIF=1 (set by ./check; no source hooks are needed at present: public API wrapped in-process)",
           "baseline_off_cmd": "cd /repo && env -u PENNYLANE_VERIF /venv/bin/python -m pytest -ra -q -p no:cacheprovider --timeout=900 --continue-on-collection-errors",
           "source_commits": [], "add_only": True},
 "engines": [{"name": "tlc", "path": "/verif/spec", "serves_properties": sorted(CHECKS), "kind_free_text": "TLA+ specifications checked with TLC 1.8; conformance harness in /verif/harness"}],
 "checks": checks, "not_applicable": na,
 "notes": "Model-based verification with an explicit TLA+ specification; see DESIGN.md. Exit 2 = machinery failure."}
json.dump(man, open("/verif/MANIFEST.json", "w"), indent=1)
import jsonschema
jsonschema.validate(man, json.load(open("/root/.vp/MANIFEST.schema.json")))
print("MANIFEST ok:", len(checks), "checks,", len(na), "not_applicable")
